// C15: Bloom filter -- no false negatives in any representation; bitwise set algebra.
// E1 (BFS to fixpoint) over a set of VIEWS of one logical filter: an owned filter F, a caller buffer M with a
// writable filter W over it, a read-only wrap R of M taken at various times, deserialized copies, an independent
// compatible operand G and three incompatible ones. Every mutating operation is applied in lock-step to F and W;
// the reference model is a vector<bool> bit array (+ the set of items inserted since the last destructive op).
// Hash injection (internal_update/internal_query with chosen (h0,h1)) in some scenarios, the public typed overloads
// against an independent XXH64 in others. A complete typed grid and the false-positive-rate family are separate tasks.
#define MC_MAIN
#include "core.hpp"
#include "choice.hpp"
#include "bfs.hpp"
#include "oracle_hash.hpp"
#include <bloom_filter.hpp>
#include <limits>
#include <cmath>
#include <set>
#include <sstream>

using namespace mc;
using namespace datasketches;
typedef bloom_filter BF;

// ------------------------------------------------------------------------------------------------
// items: either an injected hash pair or a typed public input
enum Kind { INJ, U64, I64, U32, I32, U16, I16, U8, I8, F64, F32, STR, RAW };
struct Item { Kind kind; uint64_t a, b; double d; std::string s; bool null_ptr; std::string label; };

static Item mk(Kind k, uint64_t a, const std::string& l) { Item x; x.kind = k; x.a = a; x.b = 0; x.d = 0; x.null_ptr = false; x.label = l; return x; }
static Item inj(const std::string& l, uint64_t h0, uint64_t h1) { Item x = mk(INJ, h0, l); x.b = h1; return x; }
static Item vu64(uint64_t v) { return mk(U64, v, "u64:" + std::to_string(v)); }
static Item vi64(int64_t v) { return mk(I64, (uint64_t)v, "i64:" + std::to_string(v)); }
static Item vu32(uint32_t v) { return mk(U32, v, "u32:" + std::to_string(v)); }
static Item vi32(int32_t v) { return mk(I32, (uint64_t)(int64_t)v, "i32:" + std::to_string(v)); }
static Item vu16(uint16_t v) { return mk(U16, v, "u16:" + std::to_string(v)); }
static Item vi16(int16_t v) { return mk(I16, (uint64_t)(int64_t)v, "i16:" + std::to_string(v)); }
static Item vu8(uint8_t v) { return mk(U8, v, "u8:" + std::to_string((int)v)); }
static Item vi8(int8_t v) { return mk(I8, (uint64_t)(int64_t)v, "i8:" + std::to_string((int)v)); }
static Item vf64(double v, const std::string& l = "") { Item x = mk(F64, 0, "f64:" + (l.empty() ? str(v) : l)); x.d = v; return x; }
static Item vf32(float v, const std::string& l = "") { Item x = mk(F32, 0, "f32:" + (l.empty() ? str(v) : l)); x.d = v; return x; }
static Item vstr(const std::string& v, const std::string& l = "") { Item x = mk(STR, 0, "str:" + (l.empty() ? v : l)); x.s = v; return x; }
static Item vraw(const std::string& v, const std::string& l = "") { Item x = mk(RAW, 0, "raw:" + (l.empty() ? std::to_string(v.size()) : l)); x.s = v; return x; }
static Item vraw_null() { Item x = mk(RAW, 0, "raw:nullptr"); x.s = "abcd"; x.null_ptr = true; return x; }

static void le64(std::string& o, uint64_t v) { for (int i = 0; i < 8; ++i) o += (char)(unsigned char)(v >> (8 * i)); }

// Oracle: the bytes that are hashed. Integers are widened to 64 bits preserving their value, doubles are
// canonicalised (-0.0 -> 0.0, every NaN -> 0x7ff8000000000000), floats are widened to double, strings and byte
// arrays are hashed as they are; an empty string, a null pointer and a zero length are ignored (false = ignored).
static bool canon_bytes(const Item& it, std::string& out) {
  switch (it.kind) {
    case U64: case U32: case U16: case U8: case I64: case I32: case I16: case I8: le64(out, it.a); return true;
    case F64: le64(out, oracle::canon_double_bits(it.d)); return true;
    case F32: le64(out, oracle::canon_double_bits((double)(float)it.d)); return true;
    case STR: if (it.s.empty()) return false; out = it.s; return true;
    case RAW: if (it.s.empty() || it.null_ptr) return false; out = it.s; return true;
    case INJ: return false;
  }
  return false;
}
// h0 = XXH64(item, seed), h1 = XXH64(item, h0)
static bool hashes(const Item& it, uint64_t seed, uint64_t& h0, uint64_t& h1) {
  if (it.kind == INJ) { h0 = it.a; h1 = it.b; return true; }
  std::string b; if (!canon_bytes(it, b)) return false;
  h0 = oracle::xxh64(b.data(), b.size(), seed); h1 = oracle::xxh64(b.data(), b.size(), h0);
  return true;
}
// index_i = ((h0 + i*h1) >> 1) % capacity, i = 1..num_hashes (64-bit wrapping arithmetic, logical shift)
static bool indices(const Item& it, uint64_t seed, unsigned k, uint64_t cap, std::vector<uint32_t>& idx) {
  uint64_t h0, h1; idx.clear();
  if (!hashes(it, seed, h0, h1)) return false;
  for (unsigned i = 1; i <= k; ++i) { uint64_t x = h0 + (uint64_t)i * h1; idx.push_back((uint32_t)((x >> 1) % cap)); }
  return true;
}

static void do_update(BF& f, const Item& it) {
  switch (it.kind) {
    case INJ: f.internal_update(it.a, it.b); break;
    case U64: f.update((uint64_t)it.a); break;
    case I64: f.update((int64_t)it.a); break;
    case U32: f.update((uint32_t)it.a); break;
    case I32: f.update((int32_t)(int64_t)it.a); break;
    case U16: f.update((uint16_t)it.a); break;
    case I16: f.update((int16_t)(int64_t)it.a); break;
    case U8: f.update((uint8_t)it.a); break;
    case I8: f.update((int8_t)(int64_t)it.a); break;
    case F64: f.update((double)it.d); break;
    case F32: f.update((float)it.d); break;
    case STR: f.update(it.s); break;
    case RAW: f.update(it.null_ptr ? (const void*)nullptr : (const void*)it.s.data(), it.s.size()); break;
  }
}
static bool do_qau(BF& f, const Item& it) {
  switch (it.kind) {
    case INJ: return f.internal_query_and_update(it.a, it.b);
    case U64: return f.query_and_update((uint64_t)it.a);
    case I64: return f.query_and_update((int64_t)it.a);
    case U32: return f.query_and_update((uint32_t)it.a);
    case I32: return f.query_and_update((int32_t)(int64_t)it.a);
    case U16: return f.query_and_update((uint16_t)it.a);
    case I16: return f.query_and_update((int16_t)(int64_t)it.a);
    case U8: return f.query_and_update((uint8_t)it.a);
    case I8: return f.query_and_update((int8_t)(int64_t)it.a);
    case F64: return f.query_and_update((double)it.d);
    case F32: return f.query_and_update((float)it.d);
    case STR: return f.query_and_update(it.s);
    case RAW: return f.query_and_update(it.null_ptr ? (const void*)nullptr : (const void*)it.s.data(), it.s.size());
  }
  return false;
}
static bool do_query(const BF& f, const Item& it) {
  switch (it.kind) {
    case INJ: return f.internal_query(it.a, it.b);
    case U64: return f.query((uint64_t)it.a);
    case I64: return f.query((int64_t)it.a);
    case U32: return f.query((uint32_t)it.a);
    case I32: return f.query((int32_t)(int64_t)it.a);
    case U16: return f.query((uint16_t)it.a);
    case I16: return f.query((int16_t)(int64_t)it.a);
    case U8: return f.query((uint8_t)it.a);
    case I8: return f.query((int8_t)(int64_t)it.a);
    case F64: return f.query((double)it.d);
    case F32: return f.query((float)it.d);
    case STR: return f.query(it.s);
    case RAW: return f.query(it.null_ptr ? (const void*)nullptr : (const void*)it.s.data(), it.s.size());
  }
  return false;
}

static uint64_t round_cap(uint64_t num_bits) { return (num_bits + 63) / 64 * 64; }   // capacity is a whole number of 64-bit words
static size_t image_bytes(uint64_t num_bits) { return 32 + round_cap(num_bits) / 8; } // 4 preamble longs + bit array
static size_t popcount(const std::vector<bool>& b) { size_t n = 0; for (size_t i = 0; i < b.size(); ++i) n += b[i]; return n; }
static long first_clear(const std::vector<bool>& b, const std::vector<uint32_t>& idx) { for (size_t i = 0; i < idx.size(); ++i) if (!b[idx[i]]) return (long)idx[i]; return -1; }
static bool all_set(const std::vector<bool>& b, const std::vector<uint32_t>& idx) { for (size_t i = 0; i < idx.size(); ++i) if (!b[idx[i]]) return false; return true; }
static std::string hexbytes(const uint8_t* p, size_t n) { static const char* d = "0123456789abcdef"; std::string s; s.reserve(2 * n); for (size_t i = 0; i < n; ++i) { s += d[p[i] >> 4]; s += d[p[i] & 15]; } return s; }
// bit i of the array lives in byte i/8 at bit position i%8 (little-endian 64-bit words, as in the documented image)
static bool raw_bit(const uint8_t* p, size_t i) { return (p[i >> 3] >> (i & 7)) & 1; }
static const uint64_t DIRTY = ~(uint64_t)0;

// ------------------------------------------------------------------------------------------------
struct BloomSys {
  // configuration
  uint64_t num_bits; uint16_t k; uint64_t seed; std::vector<Item> items; std::vector<int> g_items; Item g_extra; bool g_wrapped; bool has_g2; std::vector<int> g2_items; Item g2_extra; std::string nm;
  // derived (prepare())
  uint64_t cap; std::vector<std::vector<uint32_t> > idx; std::vector<bool> valid; std::vector<bool> gbits, g2bits; int first_valid; std::vector<int> oplist;

  void prepare() {
    cap = round_cap(num_bits); idx.resize(items.size()); valid.resize(items.size()); first_valid = -1;
    for (size_t i = 0; i < items.size(); ++i) { valid[i] = indices(items[i], seed, k, cap, idx[i]); if (valid[i] && first_valid < 0) first_valid = (int)i; }
    gbits.assign(cap, false); g2bits.assign(cap, false);
    for (size_t j = 0; j < g_items.size(); ++j) if (valid[g_items[j]]) { for (size_t t = 0; t < idx[g_items[j]].size(); ++t) gbits[idx[g_items[j]][t]] = true; }
    std::vector<uint32_t> e; if (indices(g_extra, seed, k, cap, e)) for (size_t t = 0; t < e.size(); ++t) gbits[e[t]] = true;
    if (has_g2) {
      for (size_t j = 0; j < g2_items.size(); ++j) if (valid[g2_items[j]]) { for (size_t t = 0; t < idx[g2_items[j]].size(); ++t) g2bits[idx[g2_items[j]][t]] = true; }
      if (indices(g2_extra, seed, k, cap, e)) for (size_t t = 0; t < e.size(); ++t) g2bits[e[t]] = true;
      g2bits.flip();                                     // G2 is the complement: a dense operand
    }
    oplist.clear(); for (int o = 0; o < N_FIXED; ++o) if (has_g2 || (o != UNION2 && o != INTERSECT2)) oplist.push_back(o);
    name_ops(); name_refusals();
    opnd.reset(new Operands(*this));
  }

  // operands of set operations: built once per scenario, only ever passed as const operands (check() verifies G)
  struct Operands {
    std::vector<uint64_t> GM, GM2; BF G, Gown, G2, Xcap, Xk, Xseed;   // Gown: an owned filter with the contents of G, to start transient unions from
    Operands(const BloomSys& y):
      GM(image_bytes(y.num_bits) / 8, 0x5a5a5a5a5a5a5a5aULL), GM2(GM), G(y.make_g(GM, y.g_wrapped, y.g_items, y.g_extra, false)), Gown(y.make_g(GM, false, y.g_items, y.g_extra, false)),
      G2(y.make_g(GM2, !y.g_wrapped, y.g2_items, y.g2_extra, true)),
      Xcap(BF::builder::create_by_size(y.cap == 64 ? 128 : 64, y.k, y.seed)),
      Xk(BF::builder::create_by_size(y.num_bits, (uint16_t)(y.k + 1), y.seed)),
      Xseed(BF::builder::create_by_size(y.num_bits, y.k, y.seed + 1)) { Xcap.invert(); Xk.invert(); Xseed.invert(); }
  };
  std::shared_ptr<Operands> opnd;

  struct State {
    std::vector<uint64_t> M;                     // caller memory (8-byte aligned, exactly the image size)
    BF F, W;
    std::unique_ptr<BF> R;                       // read-only wrap of M taken at some earlier time
    std::vector<bool> bits;                      // model: the bit array. An item is "present" iff all its bits are set, which is
                                                 // what every view has to answer; in particular every inserted item is present
    bool r_ne;                                   // the model was non-empty when R was taken
    uint8_t* m() { return reinterpret_cast<uint8_t*>(M.data()); }
    size_t mbytes() const { return M.size() * 8; }
    State(const BloomSys& y):
      M(image_bytes(y.num_bits) / 8, 0xa5a5a5a5a5a5a5a5ULL),
      F(BF::builder::create_by_size(y.num_bits, y.k, y.seed)),
      W(BF::builder::initialize_by_size(M.data(), M.size() * 8, y.num_bits, y.k, y.seed)),
      bits(y.cap, false), r_ne(false) {}
  };

  BF make_g(std::vector<uint64_t>& gm, bool wrapped, const std::vector<int>& gi, const Item& extra, bool inverted) const {
    if (wrapped) {
      BF g = BF::builder::initialize_by_size(gm.data(), gm.size() * 8, num_bits, k, seed);
      for (size_t j = 0; j < gi.size(); ++j) do_update(g, items[gi[j]]);
      do_update(g, extra);
      if (inverted) g.invert();
      return BF(BF::wrap(gm.data(), gm.size() * 8));     // the operand is a read-only view of caller memory
    }
    BF g = BF::builder::create_by_size(num_bits, k, seed);
    for (size_t j = 0; j < gi.size(); ++j) do_update(g, items[gi[j]]);
    do_update(g, extra);
    if (inverted) g.invert();
    return g;
  }

  // ---- alphabet ----
  enum { GBU_F, GBU_W, SERDE_F, F_FROM_M, M_FROM_F, REWRAP_R, REWRAP_W, UNION, INTERSECT, INVERT, RESET, UNION2, INTERSECT2, N_FIXED };
  std::string name() const { return nm; }
  State* make() { return new State(*this); }
  size_t nops() const { return 2 * items.size() + oplist.size(); }
  std::vector<std::string> opnames;
  std::string opname(size_t i) const { return opnames[i]; }
  void name_ops() {
    static const char* n[] = {"gbuF", "gbuW", "F=deser(ser(F))", "F=deser(M)", "M=ser(F),W=wwrap(M)", "R=wrap(M)", "W=wwrap(M)", "union(G)", "intersect(G)", "invert", "reset", "union(G2)", "intersect(G2)"};
    opnames.clear();
    for (size_t i = 0; i < items.size(); ++i) opnames.push_back("upd(" + items[i].label + ")");
    for (size_t i = 0; i < items.size(); ++i) opnames.push_back("qau(" + items[i].label + ")");
    for (size_t i = 0; i < oplist.size(); ++i) opnames.push_back(n[oplist[i]]);
  }

  struct Snap { std::vector<uint8_t> fb; uint64_t fn; bool fd; std::vector<uint64_t> M; uint64_t wn; bool wd; uint64_t rn; bool rd; };
  Snap snap(State& s) const {
    Snap p; p.fb.assign(s.F.bit_array_, s.F.bit_array_ + (s.F.capacity_bits_ >> 3)); p.fn = s.F.num_bits_set_; p.fd = s.F.is_dirty_;
    p.M = s.M; p.wn = s.W.num_bits_set_; p.wd = s.W.is_dirty_; p.rn = s.R ? s.R->num_bits_set_ : 0; p.rd = s.R ? s.R->is_dirty_ : false; return p;
  }
  bool same(State& s, const Snap& p) const {
    return p.fb.size() == (s.F.capacity_bits_ >> 3) && memcmp(p.fb.data(), s.F.bit_array_, p.fb.size()) == 0 && p.fn == s.F.num_bits_set_ && p.fd == s.F.is_dirty_
      && p.M == s.M && p.wn == s.W.num_bits_set_ && p.wd == s.W.is_dirty_ && (!s.R || (p.rn == s.R->num_bits_set_ && p.rd == s.R->is_dirty_));
  }
  void restore(State& s, const Snap& p) const {
    if (p.fb.size() == (s.F.capacity_bits_ >> 3)) memcpy(s.F.bit_array_, p.fb.data(), p.fb.size());
    s.F.num_bits_set_ = p.fn; s.F.is_dirty_ = p.fd; s.M = p.M; s.W.num_bits_set_ = p.wn; s.W.is_dirty_ = p.wd;
    if (s.R) { s.R->num_bits_set_ = p.rn; s.R->is_dirty_ = p.rd; }
  }
  // run an operation that must be refused: it has to throw and leave every view as it was (p = snapshot taken before).
  // If it does not, the failure is reported and the state is put back.
  template<class Fn> void refused(State& s, Ctx& c, const Snap& p, const std::string& id, Fn fn) const {
    bool threw = false;
    try { fn(); } catch (const std::exception&) { threw = true; }
    const bool unchanged = same(s, p);
    if (!threw) c.fail(id + "/refused", std::string("the operation was carried out instead of being refused") + (unchanged ? "" : " and changed the filter or its memory"));
    else if (!unchanged) c.fail(id + "/state-unchanged", "the operation threw but had already changed the filter or its memory");
    if (!unchanged) restore(s, p);
  }

  // Exploration beyond a state that already violates the property: a state whose bit arrays differ from the model is a
  // dead end (2); a state in which only a cached count is wrong (1) is reported by check() and then continued from
  // with the count put right, so that one defect neither masks the next one nor multiplies the state space.
  int diverged(State& s) const {
    if (s.F.capacity_bits_ != cap || s.W.capacity_bits_ != cap || s.F.bit_array_ == nullptr) return 2;
    for (size_t i = 0; i < cap; ++i) if (raw_bit(s.F.bit_array_, i) != s.bits[i] || raw_bit(s.m() + 32, i) != s.bits[i]) return 2;
    const uint64_t pop = popcount(s.bits); uint64_t hdr; memcpy(&hdr, s.m() + 24, 8);
    if (!s.F.is_dirty_ && s.F.num_bits_set_ != pop) return 1;
    if (!s.W.is_dirty_ && s.W.num_bits_set_ != pop) return 1;
    if (hdr != DIRTY && hdr != pop) return 1;
    return 0;
  }
  void repair(State& s) const {
    const uint64_t pop = popcount(s.bits); uint64_t hdr; memcpy(&hdr, s.m() + 24, 8);
    if (!s.F.is_dirty_) s.F.num_bits_set_ = pop;
    if (!s.W.is_dirty_) s.W.num_bits_set_ = pop;
    if (hdr != DIRTY && hdr != pop) { hdr = s.W.is_dirty_ ? DIRTY : pop; memcpy(s.m() + 24, &hdr, 8); }
  }

  bool apply(State& s, size_t op, Ctx* c) {
    const size_t n = items.size();
    { const int d = diverged(s); if (d == 2) return false; if (d == 1) repair(s); }
    if (op < n) {                                   // update(x) on F and on W
      do_update(s.F, items[op]); do_update(s.W, items[op]);
      if (valid[op]) { for (size_t t = 0; t < idx[op].size(); ++t) s.bits[idx[op][t]] = true; }
      return true;
    }
    if (op < 2 * n) {                               // query_and_update(x) on F and on W: returns the pre-state answer
      const size_t i = op - n;
      const bool before = valid[i] && all_set(s.bits, idx[i]);
      const bool rf = do_qau(s.F, items[i]), rw = do_qau(s.W, items[i]);
      if (c) { c->eq("F/query_and_update-returns-prestate", rf, before); c->eq("W/query_and_update-returns-prestate", rw, before); c->rep.outcome(before ? "qau:was-present" : valid[i] ? "qau:was-absent" : "qau:ignored-input"); }
      if (valid[i]) { for (size_t t = 0; t < idx[i].size(); ++t) s.bits[idx[i][t]] = true; }
      return true;
    }
    const uint64_t pop = popcount(s.bits);
    switch (oplist[op - 2 * n]) {
      case GBU_F: { uint64_t v = s.F.get_bits_used(); if (c) c->eq("F/bits_used", v, pop); return true; }
      case GBU_W: { uint64_t v = s.W.get_bits_used(); if (c) c->eq("W/bits_used", v, pop); return true; }
      case SERDE_F: { BF::vector_bytes b = s.F.serialize(); s.F = BF::deserialize(b.data(), b.size()); return true; }
      case F_FROM_M: { s.F = BF::deserialize(s.m(), s.mbytes()); return true; }
      case M_FROM_F: {                              // the serialized image of F becomes the caller memory, wrapped for writing
        BF::vector_bytes b = s.F.serialize();
        if (b.size() != s.mbytes()) return false;   // the 24-byte image of an empty filter cannot be wrapped for writing
        memcpy(s.m(), b.data(), b.size()); s.W = BF::writable_wrap(s.m(), s.mbytes()); return true;
      }
      case REWRAP_R: { s.R.reset(new BF(BF::wrap(s.m(), s.mbytes()))); s.r_ne = pop > 0; return true; }
      case REWRAP_W: { s.W = BF::writable_wrap(s.m(), s.mbytes()); return true; }
      case UNION: {
        s.F.union_with(opnd->G); s.W.union_with(opnd->G);
        for (size_t i = 0; i < cap; ++i) if (gbits[i]) s.bits[i] = true;
        return true;
      }
      case INTERSECT: {
        s.F.intersect(opnd->G); s.W.intersect(opnd->G);
        for (size_t i = 0; i < cap; ++i) if (!gbits[i]) s.bits[i] = false;
        return true;
      }
      case UNION2: {
        s.F.union_with(opnd->G2); s.W.union_with(opnd->G2);
        for (size_t i = 0; i < cap; ++i) if (g2bits[i]) s.bits[i] = true;
        return true;
      }
      case INTERSECT2: {
        s.F.intersect(opnd->G2); s.W.intersect(opnd->G2);
        for (size_t i = 0; i < cap; ++i) if (!g2bits[i]) s.bits[i] = false;
        return true;
      }
      case INVERT: { s.F.invert(); s.W.invert(); s.bits.flip(); return true; }
      case RESET: { s.F.reset(); s.W.reset(); s.bits.assign(cap, false); return true; }
    }
    return false;
  }

  // Operations that must be refused (run in every state, from check()): every write through the read-only view, and
  // set operations with incompatible operands. They must throw and change nothing.
  std::vector<std::string> rid;   // check ids, built once
  void name_refusals() {
    const char* sn[2] = { "F", "W" }; const char* xn[3] = { "other-capacity", "other-num_hashes", "other-seed" };
    rid.clear();
    for (int a = 0; a < 2; ++a) for (int b = 0; b < 3; ++b) { rid.push_back(std::string(sn[a]) + ".is_compatible(" + xn[b] + ")"); rid.push_back(std::string(sn[a]) + ".union_with(" + xn[b] + ")"); rid.push_back(std::string(sn[a]) + ".intersect(" + xn[b] + ")"); }
    const char* rn[6] = { "R.update", "R.query_and_update", "R.reset", "R.invert", "R.union_with", "R.intersect" };
    for (int i = 0; i < 6; ++i) rid.push_back(rn[i]);
  }
  void refusals(State& s, Ctx& c) const {
    const Snap p = snap(s); const size_t f0 = c.fails.size();
    if (s.R && first_valid >= 0) {
      BF& r = *s.R; const Item& it = items[first_valid]; BF& g = opnd->G;
      if (!r.is_read_only()) c.fail("R/is_read_only", "a filter obtained from wrap() does not say it is read-only");
      refused(s, c, p, rid[18], [&]() { do_update(r, it); });
      refused(s, c, p, rid[19], [&]() { do_qau(r, it); });
      refused(s, c, p, rid[20], [&]() { r.reset(); });
      refused(s, c, p, rid[21], [&]() { r.invert(); });
      refused(s, c, p, rid[22], [&]() { r.union_with(g); });
      refused(s, c, p, rid[23], [&]() { r.intersect(g); });
      // the read-only property travels with the view: through copy / move construction and through copy / move assignment INTO an
      // object that was a writable filter before
      for (int how = 0; how < 4; ++how) {
        const char* hn[4] = { "copy-constructed(R)", "move-constructed(R)", "copy-assigned(R)-into-writable", "move-assigned(R)-into-writable" };
        BF src(r);
        std::unique_ptr<BF> t;
        if (how == 0) t.reset(new BF(src));
        else if (how == 1) t.reset(new BF(std::move(src)));
        else { t.reset(new BF(opnd->G)); if (how == 2) *t = src; else *t = std::move(src); }
        if (!t->is_read_only()) c.fail(std::string(hn[how]) + "/is_read_only", "a view derived from a read-only wrap does not say it is read-only");
        refused(s, c, p, std::string(hn[how]) + ".update", [&]() { do_update(*t, it); });
        refused(s, c, p, std::string(hn[how]) + ".reset", [&]() { t->reset(); });
        refused(s, c, p, std::string(hn[how]) + ".invert", [&]() { t->invert(); });
      }
      if (c.fails.size() == f0) c.rep.outcome("refused:all-writes-through-the-read-only-view");
    }
    const size_t f1 = c.fails.size();
    BF* subj[2] = { &s.F, &s.W }; BF* xs[3] = { &opnd->Xcap, &opnd->Xk, &opnd->Xseed };
    for (int a = 0; a < 2; ++a) for (int b = 0; b < 3; ++b) {
      BF& f = *subj[a]; BF& x = *xs[b]; const size_t o = (size_t)(a * 3 + b) * 3;
      if (f.is_compatible(x)) c.fail(rid[o], "incompatible filter reported compatible");
      refused(s, c, p, rid[o + 1], [&]() { f.union_with(x); });
      refused(s, c, p, rid[o + 2], [&]() { f.intersect(x); });
    }
    if (c.fails.size() == f1) c.rep.outcome("refused:all-set-operations-with-incompatible-operands");
  }

  // canonical state: every field of every long-lived object and of the model, appended as raw bytes (the string is only hashed)
  template<typename T> static void put(std::string& c, const T& v) { c.append(reinterpret_cast<const char*>(&v), sizeof v); }
  static void fcanon(std::string& c, const BF& f, const uint8_t* m, bool with_bits) {
    put(c, f.seed_); put(c, f.num_hashes_); c += (char)('0' + f.is_dirty_); c += (char)('0' + f.is_owned_); c += (char)('0' + f.is_read_only_); put(c, f.capacity_bits_); put(c, f.num_bits_set_);
    c += f.memory_ == nullptr ? 'n' : f.memory_ == m ? 'M' : '?'; c += f.bit_array_ == nullptr ? 'n' : f.bit_array_ == m + 32 ? 'M' : 'o';
    if (with_bits && f.bit_array_) c.append(reinterpret_cast<const char*>(f.bit_array_), f.capacity_bits_ >> 3);
  }
  // the earlier read-only view is only ever queried (and written to, which must be refused): what it answers depends on
  // its flags and on whether its cached count says "empty", not on the cached number itself
  static void rcanon(std::string& c, const BF& f, const uint8_t* m) {
    c += (char)('0' + f.is_dirty_); c += (char)('0' + f.is_owned_); c += (char)('0' + f.is_read_only_); c += f.num_bits_set_ == 0 ? 'z' : 'p'; c += f.memory_ == m ? 'M' : '?'; c += f.bit_array_ == m + 32 ? 'M' : '?';
    put(c, f.capacity_bits_); put(c, f.num_hashes_);
  }
  std::string canon(State& s) {
    std::string c; c.reserve(160 + 3 * (cap >> 3));
    c += 'F'; fcanon(c, s.F, s.m(), true); c += 'W'; fcanon(c, s.W, s.m(), false); c += 'M'; c.append(reinterpret_cast<const char*>(s.m()), s.mbytes());
    c += 'R'; if (s.R) rcanon(c, *s.R, s.m()); else c += '-';
    c += 'm'; for (size_t i = 0; i < cap; i += 8) { unsigned b = 0; for (int j = 0; j < 8; ++j) b |= (unsigned)s.bits[i + j] << j; c += (char)b; }
    c += s.r_ne ? '1' : '0';
    return c;
  }

  // ---- oracle ----
  // Observe one view completely against an expected bit array. Reports the FIRST failing aspect of the view (so that
  // one defect does not produce one violation class per aspect) and returns whether the view was faultless.
  // mutate=true additionally calls get_bits_used() (which may clear the dirty flag) and re-checks the answers.
  bool observe(const char* view, BF& f, const std::vector<bool>& exp, Ctx& c, bool mutate) const {
    const std::string v(view);
    if (f.get_capacity() != cap) { c.fail(v + "/capacity", "got " + str(f.get_capacity()) + " expected " + str(cap)); return false; }
    if (f.get_num_hashes() != k) { c.fail(v + "/num_hashes", "got " + str(f.get_num_hashes()) + " expected " + str(k)); return false; }
    if (f.get_seed() != seed) { c.fail(v + "/seed", "got " + str(f.get_seed()) + " expected " + str(seed)); return false; }
    for (size_t i = 0; i < cap; ++i) if (raw_bit(f.bit_array_, i) != exp[i]) { c.fail(v + "/bits", "bit " + str(i) + " is " + str(!exp[i]) + ", the model has " + str((bool)exp[i])); return false; }
    const size_t pop = popcount(exp);
    for (int round = 0; round < (mutate ? 2 : 1); ++round) {
      const char* sfx = round ? "-after-bits_used" : "";
      for (size_t i = 0; i < items.size(); ++i) {
        const bool e = valid[i] && all_set(exp, idx[i]); const bool got = do_query(f, items[i]);
        if (got == e) continue;
        if (!got) c.fail(v + "/false-negative" + sfx, "item " + items[i].label + " is reported absent although all of its bits are set, as they are after inserting it (is_empty()=" + str(f.is_empty()) + ", " + str(pop) + " bits are set)");
        else c.fail(v + "/query-true-with-a-clear-bit" + sfx, "query(" + items[i].label + ") is true although bit " + str(first_clear(exp, idx[i])) + " is clear");
        return false;
      }
      if (f.is_empty() != (pop == 0)) { c.fail(v + "/is_empty" + sfx, "got " + str(f.is_empty()) + " expected " + str(pop == 0)); return false; }
      if (round == 0 && mutate) { const uint64_t n = f.get_bits_used(); if (n != pop) { c.fail(v + "/bits_used", "got " + str(n) + " expected " + str(pop)); return false; } }
    }
    return true;
  }

  void check(State& s, Ctx& c) {
    const std::vector<bool>& B = s.bits; const size_t pop = popcount(B);
    const int div = diverged(s);
    std::vector<bool> BG(cap), BA(cap), NB(B); NB.flip();
    for (size_t i = 0; i < cap; ++i) { BG[i] = B[i] || gbits[i]; BA[i] = B[i] && gbits[i]; }
    const uint8_t* M = s.m(); const size_t MB = s.mbytes();
    BF& G = opnd->G;
    uint64_t hdr; memcpy(&hdr, M + 24, 8);
    // before any observer below refreshes the stored bit count: a read-only wrap of the memory AS THE OPERATIONS LEFT IT (the count
    // may be marked dirty) never writes to it, whatever it is asked
    if (MB >= 32 && pop > 0) {
      std::vector<uint64_t> m2((MB + 7) / 8); memcpy(m2.data(), M, MB); const std::vector<uint64_t> m0(m2);
      try { BF v(BF::wrap(m2.data(), MB)); (void)v.get_bits_used(); (void)v.is_empty(); (void)v.serialize(); } catch (const std::exception&) {}
      c.ok("read-only-wrap-leaves-the-memory-unchanged", memcmp(m0.data(), m2.data(), MB) == 0, "get_bits_used / is_empty / serialize through a read-only wrap changed the wrapped memory (stored count " + std::string(hdr == DIRTY ? "marked dirty" : "clean") + ")");
    }
    const std::string tag = std::string(pop == 0 ? "empty" : pop == cap ? "full" : "partial") + "|F" + (s.F.is_dirty_ ? "dirty" : "clean") + "|W" + (s.W.is_dirty_ ? "dirty" : "clean")
      + "|hdr" + (hdr == DIRTY ? "dirty" : hdr == pop ? "exact" : "stale") + "|R" + (s.R ? (s.r_ne ? "taken-nonempty" : "taken-empty") : "none");

    // the operand G is never changed by being an operand
    { bool same = true; for (size_t i = 0; i < cap; ++i) if (raw_bit(G.bit_array_, i) != gbits[i]) same = false; if (has_g2) for (size_t i = 0; i < cap; ++i) if (raw_bit(opnd->G2.bit_array_, i) != g2bits[i]) same = false; c.ok("G/unchanged", same, "the const operand of a set operation changed"); }
    c.ok("is_compatible(G)", s.F.is_compatible(G) && s.W.is_compatible(G) && G.is_compatible(s.F), "compatible filters reported incompatible");

    refusals(s, c);

    // Views are observed in chains: within a chain the first view that fails ends the chain, because the views after it
    // are made from the same (already rejected) source and would only repeat the finding under other names.

    // ---- chain 1: the caller memory M and everything that can be made from it right now ----
    bool ok = true;
    for (size_t i = 0; i < cap && ok; ++i) if (raw_bit(M + 32, i) != B[i]) { c.fail("M/bits", "bit " + str(i) + " of the caller memory differs from the model"); ok = false; }
    const bool m_ok = ok;
    if (ok) { BF v(BF::wrap(M, MB));                               // a read-only wrap created now
      ok = c.ok("wrap(M)/flags", v.is_read_only() && v.is_wrapped() && !v.is_memory_owned() && v.get_wrapped_memory() == M, "a read-only wrap does not describe itself as read-only, wrapped, not owning")
        && observe("wrap(M)", v, B, c, true);
      if (ok) { BF u(opnd->Gown); u.union_with(v); ok = observe("G.union_with(wrap(M))", u, BG, c, true); }
      if (ok) { BF u(opnd->Gown); u.intersect(v); ok = observe("G.intersect(wrap(M))", u, BA, c, true); }
    }
    if (ok) { std::vector<uint64_t> m2(s.M);                       // a writable wrap created now (of a byte-identical copy: observing it may write the count)
      BF v = BF::writable_wrap(m2.data(), MB);
      ok = c.ok("writable_wrap(M)/flags", !v.is_read_only() && v.is_wrapped() && !v.is_memory_owned(), "a writable wrap does not describe itself as writable, wrapped, not owning")
        && observe("writable_wrap(M)", v, B, c, true);
    }
    if (ok) { BF v = BF::deserialize(M, MB); ok = c.ok("deserialize(M)/flags", !v.is_read_only() && !v.is_wrapped() && v.is_memory_owned(), "a deserialized filter does not own its memory") && observe("deserialize(M)", v, B, c, true); }
    if (ok) { std::stringstream ss(std::string(reinterpret_cast<const char*>(M), MB), std::ios::in | std::ios::binary); BF v = BF::deserialize(ss); ok = observe("deserialize(stream(M))", v, B, c, true); }

    // ---- the read-only view taken earlier ----
    if (s.R) {
      BF& r = *s.R; bool stale = false;
      c.ok("R/flags", r.is_read_only() && r.is_wrapped() && !r.is_memory_owned() && r.get_wrapped_memory() == M, "earlier read-only wrap flags");
      for (size_t i = 0; i < items.size(); ++i) {
        const bool e = valid[i] && all_set(B, idx[i]); const bool got = do_query(r, items[i]);
        if (got && !e) { c.fail("R/query-true-with-a-clear-bit", "query(" + items[i].label + ") is true through the earlier wrap although a bit is clear"); break; }
        if (!got && e) {
          // the statement covers wraps taken after the insertion. A view taken while the filter was empty caches "empty"
          // and is only tagged; a view taken while the filter was non-empty has to see every bit of the memory it aliases
          if (s.r_ne) { c.fail("R/false-negative", "item " + items[i].label + " is reported absent by a read-only wrap that was taken while the filter was non-empty; all of its bits are set"); break; }
          stale = true;
        }
      }
      c.rep.outcome(stale ? "R:view-taken-while-empty-misses-later-insertions" : "R:agrees");
      // a read-only view never writes to the memory it was given as const, whatever is asked of it (counting the set bits of a filter
      // whose stored count is marked dirty included), and a FRESH read-only wrap taken now does not either
      { std::vector<uint8_t> before((const uint8_t*)M, (const uint8_t*)M + MB);
        (void)r.get_bits_used(); (void)r.is_empty(); (void)r.serialize();
        { BF v(BF::wrap(M, MB)); (void)v.get_bits_used(); (void)v.is_empty(); }
        c.ok("read-only-views-leave-the-memory-unchanged", memcmp(before.data(), M, MB) == 0, "get_bits_used / is_empty / serialize through a read-only wrap changed the wrapped memory"); }
    }

    // ---- chain 2: the owned filter F and what is derived from it ----
    ok = observe("F", s.F, B, c, false);
    if (ok) { BF v(s.F); ok = c.ok("copy(F)/independent", v.bit_array_ != s.F.bit_array_ && v.is_memory_owned(), "a copy shares the bit array") && observe("copy(F)", v, B, c, true); }
    if (ok) { BF v = BF::builder::create_by_size(cap == 64 ? 128 : 64, (uint16_t)(k + 2), seed + 5); v = s.F; ok = observe("copy-assigned(F)", v, B, c, true); }
    if (ok) {
      BF::vector_bytes b = s.F.serialize();
      ok = c.eq("serialize(F)/size", b.size(), s.F.get_serialized_size_bytes()) && c.ok("serialize(F)/size-by-emptiness", b.size() == (pop == 0 ? 24 : MB), "the image is " + str(b.size()) + " bytes");
      if (ok) { BF v = BF::deserialize(b.data(), b.size()); ok = observe("deserialize(serialize(F))", v, B, c, true); }
      if (ok) { BF v(BF::wrap(b.data(), b.size())); ok = observe("wrap(serialize(F))", v, B, c, true); }
      if (ok) {
        BF::vector_bytes b2(b);
        if (pop > 0) { BF v = BF::writable_wrap(b2.data(), b2.size()); ok = observe("writable_wrap(serialize(F))", v, B, c, true); }
        else { try { BF v = BF::writable_wrap(b2.data(), b2.size()); ok = observe("writable_wrap(serialize(F))", v, B, c, true); c.rep.outcome("wwrap-of-empty-image:accepted"); } catch (const std::invalid_argument&) { c.rep.outcome("wwrap-of-empty-image:refused"); } }
      }
    }
    if (ok) { BF::vector_bytes b = s.F.serialize(7); ok = c.eq("serialize(F,header)/size", b.size(), s.F.get_serialized_size_bytes() + 7); if (ok) { BF v = BF::deserialize(b.data() + 7, b.size() - 7); ok = observe("deserialize(serialize(F,header))", v, B, c, true); } }
    if (ok) { std::stringstream ss(std::ios::in | std::ios::out | std::ios::binary); s.F.serialize(ss); BF v = BF::deserialize(ss); ok = observe("deserialize(stream(F))", v, B, c, true); }
    // union / intersection / inversion with F as operand or starting point
    if (ok) { BF u = BF::builder::create_by_size(num_bits, k, seed); u.union_with(s.F); ok = observe("empty.union_with(F)", u, B, c, true); }
    if (ok) { BF u(opnd->Gown); u.union_with(s.F); ok = observe("G.union_with(F)", u, BG, c, true); }
    if (ok) { BF u(opnd->Gown); u.intersect(s.F); ok = observe("G.intersect(F)", u, BA, c, true); }
    if (ok) { BF u(s.F); u.union_with(s.F); ok = observe("copy(F).union_with(F)", u, B, c, true); }
    if (ok) { BF u(s.F); u.invert(); ok = observe("copy(F).invert", u, NB, c, true); if (ok) { u.invert(); ok = observe("copy(F).invert.invert", u, B, c, true); } }
    if (ok) ok = c.eq("F/bits_used", s.F.get_bits_used(), (uint64_t)pop);       // last: mutates F (the state object is discarded after check())

    // ---- chain 3: the writable filter W in caller memory ----
    ok = m_ok && observe("W", s.W, B, c, false);
    if (ok) ok = c.ok("W/flags", !s.W.is_read_only() && s.W.is_wrapped() && !s.W.is_memory_owned() && s.W.get_wrapped_memory() == M, "writable wrapped filter flags");
    if (ok) { BF::vector_bytes b = s.W.serialize(); BF v = BF::deserialize(b.data(), b.size()); ok = observe("deserialize(serialize(W))", v, B, c, true); }
    if (ok) { BF u(opnd->Gown); u.union_with(s.W); ok = observe("G.union_with(W)", u, BG, c, true); }
    if (ok) { BF u(opnd->Gown); u.intersect(s.W); ok = observe("G.intersect(W)", u, BA, c, true); }
    if (ok) ok = c.eq("W/bits_used", s.W.get_bits_used(), (uint64_t)pop);       // last: mutates W and possibly the header in M

    // a state that the exploration repairs or abandons must be one the oracle objects to
    if (div && c.fails.empty()) c.rep.cap("a state was treated as diverged (" + str(div) + ") although the oracle found nothing wrong in it: " + nm);
    if (div) c.rep.outcome(div == 2 ? "diverged:dead-end" : "diverged:count-put-right-before-continuing");
    c.rep.outcome(tag);
  }
};

// ------------------------------------------------------------------------------------------------
// complete typed grid: every public overload x boundary values x seeds x sizes; bit positions from the XXH64 oracle
static std::vector<Item> typed_grid() {
  std::vector<Item> g;
  const double nan = std::numeric_limits<double>::quiet_NaN(), inf = std::numeric_limits<double>::infinity();
  uint64_t nanbits = 0xfff8000000000123ULL; double nan2; memcpy(&nan2, &nanbits, 8);
  g.push_back(vu64(0)); g.push_back(vu64(1)); g.push_back(vu64(5)); g.push_back(vu64(1ULL << 63)); g.push_back(vu64(~0ULL));
  g.push_back(vi64(0)); g.push_back(vi64(5)); g.push_back(vi64(-1)); g.push_back(vi64(std::numeric_limits<int64_t>::min())); g.push_back(vi64(std::numeric_limits<int64_t>::max()));
  g.push_back(vu32(0)); g.push_back(vu32(5)); g.push_back(vu32(4000000000u)); g.push_back(vu32(0xffffffffu));
  g.push_back(vi32(5)); g.push_back(vi32(-1)); g.push_back(vi32(std::numeric_limits<int32_t>::min()));
  g.push_back(vu16(5)); g.push_back(vu16(65535)); g.push_back(vi16(-1)); g.push_back(vi16(-32768)); g.push_back(vi16(5));
  g.push_back(vu8(5)); g.push_back(vu8(200)); g.push_back(vu8(255)); g.push_back(vi8(-1)); g.push_back(vi8(-128)); g.push_back(vi8(5));
  g.push_back(vf64(0.0)); g.push_back(vf64(-0.0, "-0")); g.push_back(vf64(1.5)); g.push_back(vf64(5.0)); g.push_back(vf64(nan, "nan")); g.push_back(vf64(nan2, "-nan+payload"));
  g.push_back(vf64(inf, "inf")); g.push_back(vf64(-inf, "-inf")); g.push_back(vf64(4.9406564584124654e-324, "denorm_min")); g.push_back(vf64(0.1));
  g.push_back(vf32(1.5f)); g.push_back(vf32(-0.0f, "-0")); g.push_back(vf32(std::numeric_limits<float>::quiet_NaN(), "nan")); g.push_back(vf32(1e-40f, "denorm")); g.push_back(vf32(0.1f, "0.1f"));
  g.push_back(vstr("a")); g.push_back(vstr("")); g.push_back(vstr("abc")); g.push_back(vstr(std::string("a\0b", 3), "a-nul-b"));
  g.push_back(vstr(std::string(31, 'x'), "x*31")); g.push_back(vstr(std::string(32, 'x'), "x*32")); g.push_back(vstr(std::string(33, 'x'), "x*33")); g.push_back(vstr(std::string(100, 'y'), "y*100"));
  const size_t lens[] = {1, 3, 4, 7, 8, 9, 31, 32, 33, 64, 67};
  for (size_t i = 0; i < sizeof lens / sizeof lens[0]; ++i) { std::string b; for (size_t j = 0; j < lens[i]; ++j) b += (char)(unsigned char)(j * 37 + 11); g.push_back(vraw(b)); }
  g.push_back(vraw("", "0")); g.push_back(vraw_null());
  { std::string b; le64(b, 5); g.push_back(vraw(b, "8=le64(5)")); }
  return g;
}

static void typed_grid_check(Report& rep, const Config& cfg) {
  const std::string SC = "typed-grid";
  if (!cfg.replay_scenario.empty() && cfg.replay_scenario != SC) return;
  const std::vector<Item> g = typed_grid();
  const uint64_t seeds[] = {0, 123, 0xdeadbeefcafef00dULL};
  const struct { uint64_t nb; uint16_t k; } cf[] = {{1, 1}, {63, 3}, {65, 3}, {128, 2}, {1000, 7}};
  std::set<std::string> kinds; uint64_t cases = 0;
  for (size_t ci = 0; ci < sizeof cf / sizeof cf[0]; ++ci) for (size_t si = 0; si < 3; ++si) {
    const uint64_t nb = cf[ci].nb, cap = round_cap(nb), seed = seeds[si]; const uint16_t k = cf[ci].k;
    std::vector<std::vector<uint32_t> > idx(g.size()); std::vector<bool> valid(g.size());
    for (size_t i = 0; i < g.size(); ++i) valid[i] = indices(g[i], seed, k, cap, idx[i]);
    for (size_t i = 0; i < g.size(); ++i) {
      if (rep.past_deadline()) { rep.cap("deadline in typed-grid"); break; }
      const std::string hist = g[i].label + "/bits" + str(nb) + "/k" + str(k) + "/seed" + str(seed);
      if (!cfg.replay_history.empty() && cfg.replay_history != hist) continue;
      if (!journal(SC, hist)) continue;
      Ctx c(rep, SC, hist); int a0 = asan_errors();
      std::vector<bool> exp(cap, false); if (valid[i]) for (size_t t = 0; t < idx[i].size(); ++t) exp[idx[i][t]] = true;
      const size_t pop = popcount(exp);
      c.eq("get_serialized_size_bytes(num_bits)", BF::get_serialized_size_bytes(nb), image_bytes(nb));
      std::vector<uint64_t> M(image_bytes(nb) / 8, ~0ULL), M2(M);
      // filter pair A: query_and_update twice (owned and in caller memory)
      BF fa = BF::builder::create_by_size(nb, k, seed); BF wa = BF::builder::initialize_by_size(M.data(), M.size() * 8, nb, k, seed);
      c.eq("capacity", fa.get_capacity(), cap); c.eq("capacity(wrapped)", wa.get_capacity(), cap);
      c.ok("query-on-empty", !do_query(fa, g[i]) && !do_query(wa, g[i]), "an empty filter reports the item present");
      const bool r1 = do_qau(fa, g[i]), r1w = do_qau(wa, g[i]);
      c.ok("first-query_and_update-false", !r1 && !r1w, "query_and_update on an empty filter returned true");
      const bool r2 = do_qau(fa, g[i]), r2w = do_qau(wa, g[i]);
      c.ok("second-query_and_update", r2 == valid[i] && r2w == valid[i], "second query_and_update returned " + str(r2) + "/" + str(r2w) + ", item is " + (valid[i] ? "valid" : "an ignored input"));
      // filter pair B: update, then query everything in the grid
      BF fb = BF::builder::create_by_size(nb, k, seed); BF wb = BF::builder::initialize_by_size(M2.data(), M2.size() * 8, nb, k, seed);
      do_update(fb, g[i]); do_update(wb, g[i]);
      BF* fs[4] = { &fa, &wa, &fb, &wb }; const char* fn[4] = { "owned/qau", "wrapped/qau", "owned/update", "wrapped/update" };
      for (int f = 0; f < 4; ++f) {
        bool bits_ok = true; for (size_t b = 0; b < cap && bits_ok; ++b) if (raw_bit(fs[f]->bit_array_, b) != exp[b]) { bits_ok = false; c.fail(std::string(fn[f]) + "/bits==xxh64-double-hashing", "bit " + str(b) + " is " + str(!exp[b]) + " (expected " + str(pop) + " bits set)"); }
        if (!bits_ok) continue;
        c.eq(std::string(fn[f]) + "/is_empty", fs[f]->is_empty(), pop == 0);
        for (size_t j = 0; j < g.size(); ++j) {
          const bool e = valid[j] && all_set(exp, idx[j]);
          if (do_query(*fs[f], g[j]) != e) { c.fail(std::string(fn[f]) + (j == i ? "/query-inserted" : "/query-other"), "after inserting " + g[i].label + ", query(" + g[j].label + ") != " + str(e)); break; }
        }
        c.eq(std::string(fn[f]) + "/bits_used", fs[f]->get_bits_used(), (uint64_t)pop);
      }
      // memory one byte short must be refused by the initialiser
      { std::vector<uint64_t> M3(M.size(), 0); bool threw = false; try { BF t = BF::builder::initialize_by_size(M3.data(), M3.size() * 8 - 1, nb, k, seed); } catch (const std::exception&) { threw = true; } c.ok("initialize-short-memory-refused", threw, "initialize_by_size accepted a block that is too small"); }
      if (asan_errors() != a0) c.fail("asan", "AddressSanitizer report in this case");
      rep.flush_ctx_fails(c.fails, SC, hist);
      rep.outcome(std::string("grid:") + (valid[i] ? "inserted" : "ignored") + "|pop" + str(pop));
      rep.evaluations++; rep.states++; rep.transitions++; rep.traces++; cases++;
      kinds.insert(g[i].label.substr(0, 3));
    }
  }
  journal_clear();
  rep.scenarios.push_back("typed-grid: " + str(cases) + " (value,size,seed) cases over " + str(kinds.size()) + " overloads, each followed by a query of all " + str(g.size()) + " grid values");
  rep.sample("typed-grid: " + g[12].label + ", " + g[33].label + ", " + g[47].label);
}

// ------------------------------------------------------------------------------------------------
// false-positive rate over a fixed, completely enumerated family (family_enumeration, not a universal claim)
static void fpp_family(Report& rep, const Config& cfg) {
  const std::string SC = "family_enumeration/fpp";
  if (!cfg.replay_scenario.empty() && cfg.replay_scenario != SC) return;
  const double targets[] = {0.1, 0.01};
  const uint64_t seeds[] = {0, 1, 9001, 123456789ULL, 0xdeadbeefULL, 0x9e3779b97f4a7c15ULL, 0xffffffffffffffffULL, 0x0123456789abcdefULL};
  const uint64_t N = 10000, P = 100000;
  for (int ti = 0; ti < 2; ++ti) for (int si = 0; si < 8; ++si) {
    const double t = targets[ti]; const uint64_t seed = seeds[si]; const bool wrapped = si & 1;
    const std::string hist = "target" + str(t) + "/seed" + str(seed) + (wrapped ? "/initialize_by_accuracy" : "/create_by_accuracy");
    if (!cfg.replay_history.empty() && cfg.replay_history != hist) continue;
    if (!journal(SC, hist)) continue;
    Ctx c(rep, SC, hist);
    const uint64_t m0 = BF::builder::suggest_num_filter_bits(N, t); const uint16_t k0 = BF::builder::suggest_num_hashes(t);
    std::vector<uint64_t> mem(wrapped ? image_bytes(m0) / 8 : 1);
    BF f = wrapped ? BF::builder::initialize_by_accuracy(mem.data(), mem.size() * 8, N, t, seed) : BF::builder::create_by_accuracy(N, t, seed);
    c.eq("capacity==suggested-rounded-up", f.get_capacity(), round_cap(m0)); c.eq("num_hashes==suggested", f.get_num_hashes(), k0);
    const double m = (double)f.get_capacity(), k = (double)f.get_num_hashes();
    const double theory = std::pow(1.0 - std::exp(-k * (double)N / m), k);    // classical rate of a filter with m bits, k hashes, N items
    c.ok("suggested-size-meets-target", theory <= 1.05 * t, "m=" + str(m) + " k=" + str(k) + " gives a design rate of " + str(theory) + " for target " + str(t));
    for (uint64_t i = 0; i < N; ++i) f.update(i);
    uint64_t fn = 0; for (uint64_t i = 0; i < N; ++i) if (!f.query(i)) ++fn;
    c.eq("false-negatives", fn, (uint64_t)0);
    uint64_t fp = 0; for (uint64_t i = N; i < N + P; ++i) if (f.query(i)) ++fp;
    const double rate = (double)fp / (double)P, sigma = std::sqrt(theory * (1 - theory) / (double)P), bound = std::max(theory, t) + 5 * sigma;
    c.ok("false-positive-rate-near-target", rate <= bound, "observed " + str(rate) + " over " + str(P) + " disjoint probes; target " + str(t) + ", design rate " + str(theory) + ", 5-sigma bound " + str(bound));
    rep.flush_ctx_fails(c.fails, SC, hist);
    rep.outcome(std::string("fpp:") + (rate <= t ? "at-or-below-target" : "above-target-within-5-sigma") + "|" + str(t));
    rep.sample(SC + ": " + hist + " -> " + str(fp) + "/" + str(P) + " false positives (design rate " + str(theory) + ")", 16);
    rep.evaluations += N + P; rep.states++; rep.transitions++; rep.traces++;
  }
  journal_clear();
  rep.scenarios.push_back(SC + ": targets {0.1,0.01} x 8 seeds, 10^4 inserted (0..9999), 10^5 disjoint probes, bound = max(target, design rate) + 5 sigma");
  rep.sets("fpp_clause_level", "family_enumeration");
}

// ------------------------------------------------------------------------------------------------
// item universes
static std::vector<Item> injected_items(uint64_t cap, size_t n) {
  std::vector<Item> v;
  v.push_back(inj("A", 0, 2));                                              // indices 1,2,3
  v.push_back(inj("B", 3, 2));                                              // 2,3,4: overlaps A; the odd low bit is shifted out
  v.push_back(inj("D", 2 * (cap - 2), 2));                                  // cap-1, 0, 1: wraps modulo capacity, overlaps A
  v.push_back(inj("E", 0x8000000000000000ULL + 140, 0x8000000000000000ULL)); // sum overflows 64 bits; all indices coincide (70 % cap)
  v.push_back(inj("C", 20, 0));                                             // h1 = 0: one index (10) whatever num_hashes
  v.push_back(inj("B2", 2, 2));                                             // exactly the index set of B
  v.resize(std::min(n, v.size()));
  return v;
}
static std::vector<Item> typed_items(int group, size_t n) {
  std::vector<Item> v;
  if (group == 0) { v.push_back(vu64(5)); v.push_back(vi32(-7)); v.push_back(vstr("a")); v.push_back(vf64(-0.0, "-0")); v.push_back(vstr("")); v.push_back(vf64(0.0)); }
  else if (group == 1) { v.push_back(vu8(200)); v.push_back(vi16(-300)); v.push_back(vf32(1.5f)); v.push_back(vraw(std::string("\x01\x02\x03", 3))); v.push_back(vraw_null()); v.push_back(vf64(1.5)); }
  else { v.push_back(vu32(4000000000u)); v.push_back(vi8(-1)); v.push_back(vi64(std::numeric_limits<int64_t>::min())); v.push_back(vu16(65535)); v.push_back(vf64(std::numeric_limits<double>::quiet_NaN(), "nan")); v.push_back(vi64(-1)); }
  v.resize(std::min(n, v.size()));
  return v;
}

int main(int argc, char** argv) {
  Config cfg = parse_args(argc, argv);
  std::string ht = oracle::self_test();
  if (!ht.empty()) { fprintf(stderr, "HARNESS-ERROR oracle hash self-test failed: %s\n", ht.c_str()); return 3; }
  forbid_unowned_draws();
  // a replay uses the thorough alphabet (a superset of the quick one: same scenario names, operations parsed by name)
  const bool q = cfg.quick() && cfg.replay_scenario.empty();
  std::vector<Task> tasks;
  { Task t; t.name = "typed-grid"; t.fn = [&cfg](Report& rep) {
      typed_grid_check(rep, cfg);
      rep.assumptions.push_back("sizes num_bits in {1,63,64,65,128,129} (capacities 64, 128, 192 bits), num_hashes in {1,3}; thorough adds (129 bits, 7 hashes) and (1000 bits, 2 hashes); item universes of 3-4 (quick) or 5-6 (thorough) items per scenario; one compatible operand G (owned or a read-only wrap), thorough adds a dense second operand G2; three incompatible operands (capacity, num_hashes, seed)");
      rep.assumptions.push_back("bit i of the array is bit i%8 of byte i/8 (little-endian 64-bit words of the documented image); index_i = ((h0 + i*h1) >> 1) % capacity, i = 1..num_hashes, h0 = XXH64(bytes, seed), h1 = XXH64(bytes, h0)");
      rep.assumptions.push_back("integers are hashed as 8 little-endian bytes of their value widened to 64 bits, doubles canonicalised (-0.0 -> 0.0, NaN -> 0x7ff8000000000000), floats widened to double; empty string / null / zero length are ignored");
      rep.assumptions.push_back("views made in the state being checked (copy, restored image, read-only and writable wrap of the caller memory, unions) must agree with the model completely; a read-only wrap taken EARLIER must never answer present with a clear bit and, if it was taken while the filter was non-empty, must see every bit of the memory it aliases; one taken while the filter was empty caches 'empty' and is only tagged");
      rep.assumptions.push_back("exploration does not continue from a state whose bit arrays already differ from the model; a state in which only a cached count is wrong is reported and then continued from with the count put right (so one defect does not mask the next); within one state the views are observed in chains that stop at the first failing view");
      rep.assumptions.push_back("the false-positive-rate clause is decided only over the fixed enumerated family (family_enumeration); all other clauses by BFS to fixpoint");
      rep.sets("rule", "BFS to fixpoint over update / query_and_update / get_bits_used (on either filter) / serialize-deserialize / deserialize(M) / M:=serialize(F) / fresh wrap(M) / fresh writable_wrap(M) / union / intersect / invert / reset, applied in lock-step to an owned filter F and a filter W in caller memory M, on the product with a vector<bool> model; in every state every view (F, W, the earlier read-only wrap, and a copy, restored images, a read-only wrap, a writable wrap, a deserialized copy and unions made in that state) is compared with the model, and every write through the read-only view and every set operation with an incompatible operand must throw and change nothing. Distinct = distinct (fill, dirty flags, header count state, older view) tag or operation outcome tag.");
    }; tasks.push_back(t); }
  { Task t; t.name = "family_enumeration/fpp"; t.fn = [&cfg](Report& rep) { fpp_family(rep, cfg); }; tasks.push_back(t); }

  // num_bits x num_hashes: the designed grid {1,63,64,65,128} x {3,1} (capacities 64 and 128), plus 129 bits (capacity 192: the
  // modulus is not a power of two); thorough adds 7 hashes and a 1000-bit filter
  std::vector<std::pair<uint64_t, uint16_t> > grid;
  { const uint64_t sizes[] = {64, 1, 63, 65, 128}; const uint16_t ks[] = {3, 1};
    for (int si = 0; si < 5; ++si) for (int ki = 0; ki < 2; ++ki) grid.push_back(std::make_pair(sizes[si], ks[ki]));
    grid.push_back(std::make_pair((uint64_t)129, (uint16_t)3));
    if (!q) { grid.push_back(std::make_pair((uint64_t)129, (uint16_t)7)); grid.push_back(std::make_pair((uint64_t)1000, (uint16_t)2)); } }
  for (int mode = 0; mode < 2; ++mode) for (size_t gi = 0; gi < grid.size(); ++gi) {
    const int si = (int)(gi / 2), ki = (int)(gi % 2);
    BloomSys y; y.num_bits = grid[gi].first; y.k = grid[gi].second;
    const size_t n = q ? ((y.num_bits == 64 || (y.num_bits == 129 && mode == 0)) ? 4 : 3) : ((y.k == 7 || y.num_bits == 1000) ? 5 : 6);   // quick: 4 items at 64 bits and (injected) 129 bits, 3 items elsewhere
    if (mode == 0) {
      y.seed = 9001; y.items = injected_items(round_cap(y.num_bits), n);
      y.g_items.push_back(1); y.g_extra = inj("Z", 2 * 40, 2 * 7);           // G = {B, Z}: Z = 47,54,61
      y.nm = "inj/bits" + str(y.num_bits) + "/k" + str(y.k);
    } else {
      const uint64_t seeds[] = {0, 0x9e3779b97f4a7c15ULL, 123};
      const int grp = (si + ki) % 3; y.seed = seeds[(si + 2 * ki) % 3];
      y.items = typed_items(grp, n); y.g_items.push_back(2); y.g_extra = vu64(777);
      y.nm = "typed" + str(grp) + "/bits" + str(y.num_bits) + "/k" + str(y.k) + "/seed" + str(y.seed);
    }
    y.g_wrapped = ((si + ki + mode) % 2) == 1;
    y.has_g2 = !q; y.g2_items.push_back(0); y.g2_items.push_back(3); y.g2_extra = mode == 0 ? inj("Y", 2 * 29, 2 * 11) : vstr("g2-extra");
    if (y.g_wrapped) y.nm += "/Gwrapped";
    y.prepare();
    BfsLimits lim; lim.max_depth = 60; lim.max_states = q ? 300000 : 3000000;
    Task t; t.name = y.nm; t.fn = [y, lim, &cfg](Report& rep) mutable { explore(y, rep, cfg, lim); };
    tasks.push_back(t);
  }
  return run_tasks(cfg, "C15", tasks);
}
