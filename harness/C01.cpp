// C01: the update Theta sketch is an exact hash-threshold sample of the distinct inputs.
// E1 (BFS to fixpoint, tiny configurations through the private constructor), E2 (legal sizes, deviation-bounded
// paths) and a complete typed grid for input canonicalisation. Oracle: independent MurmurHash3 + the invariants
// of the statement evaluated in every state.
#define MC_MAIN
#include "core.hpp"
#include "choice.hpp"
#include "bfs.hpp"
#include "paths.hpp"
#include "theta_common.hpp"
#include <set>

using namespace mc;
using namespace datasketches;
typedef update_theta_sketch Sk;
static const uint64_t MAXT = theta_constants::MAX_THETA;

struct ThetaSys {
  struct State {
    Sk sk; std::set<uint64_t> seen; uint64_t prev_theta; bool any; bool just_trimmed; uint64_t theta_before_op; uint32_t n_before_op;
    State(Sk&& s): sk(std::move(s)), prev_theta(0), any(false), just_trimmed(false), theta_before_op(0), n_before_op(0) {}
  };
  uint8_t lg_cur0, lg_nom; resize_factor rf; float p; uint64_t seed; bool legal; std::vector<tc::Val> vals; std::string nm;
  enum { OP_TRIM = 0, OP_RESET = 1, OP_FIRST_VAL = 2 };

  uint64_t start_theta() const { return p < 1 ? (uint64_t)((double)MAXT * p) : MAXT; }
  std::string name() const { return nm; }
  State* make() {
    if (legal) {
      Sk::builder b; b.set_lg_k(lg_nom).set_resize_factor(rf).set_p(p).set_seed(seed);
      State* s = new State(b.build()); s->prev_theta = s->sk.table_.theta_; return s;
    }
    State* s = new State(Sk(lg_cur0, lg_nom, rf, p, start_theta(), seed, std::allocator<uint64_t>()));
    s->prev_theta = s->sk.table_.theta_; return s;
  }
  size_t nops() const { return OP_FIRST_VAL + vals.size(); }
  std::string opname(size_t i) const { return i == OP_TRIM ? "trim" : i == OP_RESET ? "reset" : "upd(" + vals[i - OP_FIRST_VAL].label + ")"; }
  bool apply(State& s, size_t op, Ctx*) {
    s.theta_before_op = s.sk.table_.theta_; s.n_before_op = s.sk.get_num_retained();
    s.just_trimmed = false;
    if (op == OP_TRIM) { s.sk.trim(); s.just_trimmed = true; }
    else if (op == OP_RESET) { s.sk.reset(); s.seen.clear(); s.any = false; s.theta_before_op = s.sk.table_.theta_; }
    else {
      const tc::Val& v = vals[op - OP_FIRST_VAL];
      tc::do_update(s.sk, v);
      oracle::H128 h;
      if (tc::oracle_hash128(v, seed, h)) { s.any = true; s.seen.insert(oracle::theta_hash(h)); }
    }
    return true;
  }
  std::string canon(State& s) {
    std::string c;
    const Sk& k = s.sk;
    c += str(k.table_.lg_cur_size_) + "," + str(k.table_.lg_nom_size_) + "," + str((int)k.table_.rf_) + "," + str(k.table_.num_entries_) + "," + hex64(k.table_.theta_) + "," + str(k.table_.is_empty_) + "[";
    size_t size = (size_t)1 << k.table_.lg_cur_size_;
    for (size_t i = 0; i < size; ++i) { if (k.table_.entries_[i]) c += hex64(k.table_.entries_[i]); c += ","; }
    c += "]M";
    for (std::set<uint64_t>::const_iterator i = s.seen.begin(); i != s.seen.end(); ++i) c += hex64(*i) + ",";
    c += s.any ? "A" : "a";
    return c;
  }
  void check(State& s, Ctx& c) {
    const Sk& k = s.sk;
    const uint64_t st = start_theta();
    const uint64_t theta_raw = k.table_.theta_;          // private view
    const uint32_t kk = 1u << lg_nom;
    // public view of the retained set
    std::vector<uint64_t> got; for (Sk::const_iterator it = k.begin(); it != k.end(); ++it) got.push_back(*it);
    std::vector<uint64_t> sorted = got; std::sort(sorted.begin(), sorted.end());
    c.eq("num_retained==iterated", (size_t)k.get_num_retained(), got.size());
    c.ok("no-duplicate-entries", std::adjacent_find(sorted.begin(), sorted.end()) == sorted.end(), "an entry is retained twice");
    c.ok("no-zero-entry", sorted.empty() || sorted.front() != 0, "zero hash retained");
    // emptiness
    c.eq("is_empty", k.is_empty(), !s.any);
    // theta: public view; empty sketch reports 1.0 whatever p
    if (!s.any) c.eq("theta-of-empty", k.get_theta64(), MAXT);
    else c.eq("theta-public==private", k.get_theta64(), theta_raw);
    // theta never increases between resets, and is start or one of the hashes seen
    c.ok("theta-non-increasing", theta_raw <= s.theta_before_op || s.theta_before_op == 0, "theta rose from " + hex64(s.theta_before_op) + " to " + hex64(theta_raw));
    c.ok("theta-is-start-or-seen", theta_raw == st || s.seen.count(theta_raw), "theta " + hex64(theta_raw) + " is neither the starting value nor a hash seen");
    c.ok("theta<=start", theta_raw <= st, "theta above start");
    // exact sample
    std::vector<uint64_t> expect;
    for (std::set<uint64_t>::const_iterator i = s.seen.begin(); i != s.seen.end(); ++i) if (*i < theta_raw && *i != 0) expect.push_back(*i);
    if (sorted != expect) {
      std::string m = "retained " + str(sorted.size()) + " expected " + str(expect.size()) + " (theta " + hex64(theta_raw) + ")";
      for (size_t i = 0; i < expect.size(); ++i) if (!std::binary_search(sorted.begin(), sorted.end(), expect[i])) { m += " missing " + hex64(expect[i]); break; }
      for (size_t i = 0; i < sorted.size(); ++i) if (!std::binary_search(expect.begin(), expect.end(), sorted[i])) { m += " extra " + hex64(sorted[i]); break; }
      c.fail("retained==seen-below-theta", m);
    }
    if (theta_raw < st) c.ok("theta-below-start-implies>=k", got.size() >= kk, "theta below start with only " + str(got.size()) + " entries, k=" + str(kk));
    if (s.just_trimmed) c.ok("trim-leaves<=k", got.size() <= kk, "after trim " + str(got.size()) + " entries, k=" + str(kk));
    if (s.just_trimmed && s.n_before_op <= kk) c.eq("trim-noop-when<=k", theta_raw, s.theta_before_op);
    // table never above the rebuild threshold
    c.ok("retained<=rebuild-threshold", got.size() <= (size_t)std::floor(15.0 / 16.0 * (2u * kk)) || k.table_.lg_cur_size_ > lg_nom + 1, "retained " + str(got.size()));
    // estimate exact whenever theta is 1.0
    if (theta_raw == MAXT) { c.eq("estimate-exact", k.get_estimate(), (double)s.seen.size() - (s.seen.count(0) ? 1 : 0)); c.ok("not-estimation-mode", !k.is_estimation_mode()); }
    c.eq("is_estimation_mode", k.is_estimation_mode(), s.any && theta_raw < MAXT);
    if (!k.is_estimation_mode()) { c.eq("lb-exact", k.get_lower_bound(2), (double)got.size()); c.eq("ub-exact", k.get_upper_bound(2), (double)got.size()); }
    else {
      double e = k.get_estimate();
      for (uint8_t sd = 1; sd <= 3; ++sd) c.ok("lb<=est<=ub", k.get_lower_bound(sd) <= e && e <= k.get_upper_bound(sd), "sd=" + str((int)sd));
      c.near("estimate==n/theta", e, got.size() / ((double)theta_raw / (double)MAXT), 1e-12);
    }
    c.eq("is_ordered", k.is_ordered(), got.size() <= 1);
    c.eq("lg_k", (int)k.get_lg_k(), (int)lg_nom);
    // compact forms and copies expose the same theta / emptiness / entries
    for (int ord = 0; ord < 2; ++ord) {
      const compact_theta_sketch cs = k.compact(ord == 1);
      std::vector<uint64_t> ce; for (compact_theta_sketch::const_iterator it = cs.begin(); it != cs.end(); ++it) ce.push_back(*it);
      c.eq(ord ? "compact-ordered-theta" : "compact-unordered-theta", cs.get_theta64(), k.get_theta64());
      c.eq(ord ? "compact-ordered-empty" : "compact-unordered-empty", cs.is_empty(), k.is_empty());
      c.eq("compact-num-retained", (size_t)cs.get_num_retained(), ce.size());
      if (ord) { c.ok("compact-ordered-flag", cs.is_ordered()); c.ok("compact-ordered-is-sorted", ce == sorted, "ordered compact form is not the sorted entry set"); }
      else { c.eq("compact-unordered-flag", cs.is_ordered(), got.size() <= 1); std::sort(ce.begin(), ce.end()); c.ok("compact-unordered-same-set", ce == sorted, "unordered compact form differs from the entry set"); }
      c.eq("compact-estimate", cs.get_estimate(), k.get_estimate());
      c.eq("compact-seed-hash", cs.get_seed_hash(), oracle::seed_hash(seed));
    }
    { // copy and copy-assignment: identical canon, and the copy is independent storage
      State t(Sk(s.sk)); t.seen = s.seen; t.any = s.any;
      c.ok("copy-canon-equal", canon(t) == canon(s), "copy differs from source");
      c.ok("copy-independent-storage", t.sk.table_.entries_ != s.sk.table_.entries_ || t.sk.table_.entries_ == nullptr, "copy shares the table");
      State u(Sk(1, 1, rf, 1.0f, MAXT, seed, std::allocator<uint64_t>())); u.sk = s.sk; u.seen = s.seen; u.any = s.any;
      c.ok("copy-assign-canon-equal", canon(u) == canon(s), "copy-assigned differs from source");
    }
    // tag for vacuity reporting
    c.rep.outcome(std::string(s.any ? "nonempty" : "empty") + (theta_raw < st ? "|theta<start" : "|theta=start") + "|lgcur" + str((int)k.table_.lg_cur_size_) + (s.just_trimmed ? "|trim" : ""));
  }
};

// complete typed grid: every overload, boundary values; single retained hash equals oracle hash of the canonical form
static void typed_grid_check(Report& rep, const Config& cfg) {
  if (!cfg.replay_scenario.empty() && cfg.replay_scenario != "typed-grid") return;
  std::vector<tc::Val> g = tc::typed_grid();
  const uint64_t seeds[] = {DEFAULT_SEED, 0, 123456789ULL};
  std::set<std::string> kinds;
  for (size_t si = 0; si < 3; ++si) for (size_t i = 0; i < g.size(); ++i) {
    std::string hist = g[i].label + "/seed" + str(seeds[si]);
    if (!cfg.replay_history.empty() && cfg.replay_history != hist) continue;
    if (!journal("typed-grid", hist)) continue;
    Sk sk = Sk::builder().set_lg_k(5).set_seed(seeds[si]).build();
    tc::do_update(sk, g[i]);
    oracle::H128 h; bool valid = tc::oracle_hash128(g[i], seeds[si], h);
    Ctx c(rep, "typed-grid", hist);
    if (!valid) { c.ok("ignored-input-leaves-empty", sk.is_empty() && sk.get_num_retained() == 0, "ignored input changed the sketch"); }
    else {
      uint64_t th = oracle::theta_hash(h);
      c.ok("nonempty-after-update", !sk.is_empty());
      if (th != 0) { if (c.eq("one-retained", sk.get_num_retained(), 1u)) c.eq("hash-of-canonical-form", *sk.begin(), th); }
    }
    rep.flush_ctx_fails(c.fails, "typed-grid", hist);
    rep.evaluations++; rep.states++; rep.transitions++; rep.traces++;
    kinds.insert(g[i].label.substr(0, 3));
  }
  journal_clear();
  rep.scenarios.push_back("typed-grid: " + str(g.size() * 3) + " (value,seed) cases over " + str(kinds.size()) + " overloads");
  rep.sample("typed-grid: " + g[7].label + ", " + g[g.size() / 2].label);
}

// pick integer values whose hashes force collisions in a table of 2^lg slots: same home slot, same home+stride
static std::vector<tc::Val> pick_values(size_t n, uint64_t seed, bool with_types) {
  std::vector<tc::Val> v;
  if (with_types) {
    v.push_back(tc::vu64(5)); v.push_back(tc::vi8(-56)); v.push_back(tc::vf64(0.0)); v.push_back(tc::vf64(-0.0, "-0")); v.push_back(tc::vstr("a"));
    v.push_back(tc::vu32(4000000000u)); v.push_back(tc::vf64(std::numeric_limits<double>::quiet_NaN(), "nan")); v.push_back(tc::vi16(-1)); v.push_back(tc::vstr(""));
    v.push_back(tc::vi64(5)); // same canonical form as u64:5
  }
  // colliding integers: scan for hashes sharing the low 3 bits and the stride bits with the first value
  std::vector<uint64_t> base;
  for (uint64_t x = 1000; base.size() < n && x < 2000000; ++x) {
    uint64_t h = oracle::theta_hash(oracle::hash_i64((int64_t)x, seed));
    if (base.empty()) { base.push_back(x); continue; }
    uint64_t h0 = oracle::theta_hash(oracle::hash_i64((int64_t)base[0], seed));
    bool same_home = (h & 7) == (h0 & 7);
    bool same_stride = ((h >> 3) & 127) == ((h0 >> 3) & 127);
    if ((base.size() % 3 == 1 && same_home) || (base.size() % 3 == 2 && same_home && same_stride) || (base.size() % 3 == 0 && x % 97 == 0)) base.push_back(x);
  }
  for (size_t i = 0; i < base.size() && v.size() < n; ++i) v.push_back(tc::vu64(base[i]));
  v.resize(std::min(v.size(), n));
  return v;
}

int main(int argc, char** argv) {
  Config cfg = parse_args(argc, argv);
  std::string ht = oracle::self_test();
  if (!ht.empty()) { fprintf(stderr, "HARNESS-ERROR oracle hash self-test failed: %s\n", ht.c_str()); return 3; }
  forbid_unowned_draws();
  const bool q = cfg.quick();
  std::vector<Task> tasks;
  { Task t; t.name = "typed-grid"; t.fn = [&cfg](Report& rep) {
      typed_grid_check(rep, cfg);
      rep.assumptions.push_back("tiny configurations (lg_k 1..3) are reached through the private constructor; they run the same template code as legal sizes");
      rep.assumptions.push_back("value alphabets are finite (7..15 values per scenario, collisions forced); lg_k up to 6 only");
      rep.sets("rule", "BFS over update/trim/reset on the product (sketch x seen-set model) to fixpoint per configuration; path enumeration with <=d deviations at legal sizes; typed grid per overload. Distinct = distinct (emptiness, theta<start, table size, trim) outcome tag.");
    }; tasks.push_back(t); }
  // E1: tiny configurations to fixpoint
  const resize_factor rfs[] = {resize_factor::X1, resize_factor::X2, resize_factor::X4, resize_factor::X8};
  const float ps[] = {1.0f, 0.5f};
  const uint64_t seeds[] = {DEFAULT_SEED, 7};
  for (int lg = 3; lg >= 1; --lg) for (int ri = 0; ri < 4; ++ri) for (int pi = 0; pi < 2; ++pi) for (int si = 0; si < 2; ++si) {
    if (q && si == 1 && !(lg == 2 && ri == 3 && pi == 0)) continue;            // quick: second seed for one configuration only
    if (q && lg == 3 && (ri == 1 || ri == 2)) continue;
    ThetaSys sys; sys.lg_nom = (uint8_t)lg; sys.rf = rfs[ri]; sys.p = ps[pi]; sys.seed = seeds[si]; sys.legal = false;
    uint8_t lg_tgt = (uint8_t)(lg + 1), lg_rf = (uint8_t)rfs[ri];
    sys.lg_cur0 = lg_rf == 0 ? lg_tgt : (uint8_t)(((lg_tgt - 1) % lg_rf) + 1);
    size_t nv = lg == 1 ? (q ? 7 : 9) : lg == 2 ? (q ? 10 : 12) : (q ? 9 : 12);
    if (pi == 1) nv += (q && lg == 2) ? 1 : 2; // half the hashes are screened out by p
    sys.vals = pick_values(nv, sys.seed, lg == 2 && ri == 3 && !(q && pi == 1));
    sys.nm = "tiny/lgk" + str(lg) + "/rf" + str(ri) + "/p" + str(ps[pi]) + "/seed" + str(seeds[si]) + "/v" + str(sys.vals.size());
    BfsLimits lim; lim.max_depth = 40; lim.max_states = q ? 400000 : 3000000;
    Task t; t.name = sys.nm; t.fn = [sys, lim, &cfg](Report& rep) mutable { explore(sys, rep, cfg, lim); };
    tasks.push_back(t);
  }
  // E2: legal sizes, default path of distinct values with deviations
  for (int lg = 5; lg <= (q ? 5 : 6); ++lg) for (int pi = 0; pi < 2; ++pi) for (int ri = 0; ri < 4; ri += 3) {
    ThetaSys sys; sys.lg_nom = (uint8_t)lg; sys.rf = rfs[ri]; sys.p = ps[pi]; sys.seed = DEFAULT_SEED; sys.legal = true; sys.lg_cur0 = 0;
    size_t n = (pi ? (q ? 1.5 : 2) : 1) * (size_t)(lg == 5 ? 136 : 260);
    for (size_t i = 0; i < n; ++i) sys.vals.push_back(tc::vu64(100000 + i));
    sys.vals.push_back(tc::vi64(100003)); sys.vals.push_back(tc::vf64(-0.0, "-0")); sys.vals.push_back(tc::vstr("a"));
    sys.nm = "legal/lgk" + str(lg) + "/rf" + str(ri) + "/p" + str(ps[pi]);
    std::vector<size_t> def, menu;
    for (size_t i = 0; i < n; ++i) def.push_back(ThetaSys::OP_FIRST_VAL + i);
    menu.push_back(ThetaSys::OP_TRIM); menu.push_back(ThetaSys::OP_RESET);
    menu.push_back(ThetaSys::OP_FIRST_VAL + 3); menu.push_back(ThetaSys::OP_FIRST_VAL + n); menu.push_back(ThetaSys::OP_FIRST_VAL + n + 1); menu.push_back(ThetaSys::OP_FIRST_VAL + n + 2);
    PathLimits pl; pl.max_dev = q ? 1 : 2; pl.check_stride = q ? 3 : 4;
    if (!q) menu.resize(3); // two deviations: shorter menu
    Task t; t.name = sys.nm; t.fn = [sys, def, menu, pl, &cfg](Report& rep) mutable { explore_paths(sys, def, menu, rep, cfg, pl); };
    tasks.push_back(t);
  }
  return run_tasks(cfg, "C01", tasks);
}
