// C03: the logical content of an HLL sketch is the set of distinct coupons (LIST/SET mode) / the per-slot maximum
// (HLL mode), identical for HLL_4, HLL_6, HLL_8, a sketch started full-size and any converted copy.
// Coupons are injected through hll_sketch::coupon_update (value<<26 | address), which takes the hash out of the state
// space; hashing/canonicalisation of every public update overload is decided separately on a complete typed grid against
// an independent MurmurHash3. E2 (deviation-bounded paths through every mode transition and HLL_4 cur-min shift) and
// E1 (BFS to fixpoint from seeded register backgrounds). Oracle: set<coupon> + uint8 reg[2^lg_k] of per-slot maxima.
#define MC_MAIN
#include "core.hpp"
#include "choice.hpp"
#include "bfs.hpp"
#include "paths.hpp"
#include "theta_common.hpp"
#include "hll_common.hpp"

using namespace mc;
using namespace datasketches;
using hc::Sk; using hc::View;

struct Op {
  enum Kind { ABS, REL, DUP_LAST, DUP_FIRST, ROT1, ROT2, SER, RESET };
  Kind kind; uint32_t addr; int arg; std::string name;
};
static const char* REL_NAME[10] = { "1", "cur", "cur+1", "cur+14", "cur+15", "cur+16", "31", "32", "62", "63" };
static unsigned rel_value(int kind, unsigned cur) {
  unsigned v;
  switch (kind) { case 0: v = 1; break; case 1: v = cur; break; case 2: v = cur + 1; break; case 3: v = cur + 14; break; case 4: v = cur + 15; break;
    case 5: v = cur + 16; break; case 6: v = 31; break; case 7: v = 32; break; case 8: v = 62; break; default: v = 63; }
  return v < 1 ? 1 : v > 63 ? 63 : v;
}
static Op op_abs(uint32_t addr, unsigned v, int lg_k) { Op o; o.kind = Op::ABS; o.addr = addr; o.arg = (int)v; o.name = "c(s" + str(addr & ((1u << lg_k) - 1)) + (addr >> lg_k ? "h" : "") + ",v" + str(v) + ")"; return o; }
static Op op_rel(uint32_t addr, int kind, int lg_k) { Op o; o.kind = Op::REL; o.addr = addr; o.arg = kind; o.name = "c(s" + str(addr & ((1u << lg_k) - 1)) + (addr >> lg_k ? "h" : "") + "," + REL_NAME[kind] + ")"; return o; }
static Op op_simple(Op::Kind k, int arg, const std::string& n) { Op o; o.kind = k; o.addr = 0; o.arg = arg; o.name = n; return o; }

struct HllSys {
  struct State {
    std::vector<Sk> sk;              // 0: HLL_4, 1: HLL_6, 2: HLL_8, 3: started full-size (type fs_type)
    std::set<uint32_t> coupons;      // model: distinct coupons accepted since construction / reset
    std::vector<uint8_t> reg;        // model: per-slot maxima
    uint32_t last, first; int last_kind;
    State(): last(0), first(0), last_kind(-1) {}
  };
  int lg_k; target_hll_type fs_type; std::vector<Op> ops; std::vector<uint32_t> seed; std::string nm; bool hip_in_canon, has_dup;
  HllSys(): lg_k(4), fs_type(HLL_8), hip_in_canon(false), has_dup(true) {}

  std::string name() const { return nm; }
  size_t nops() const { return ops.size(); }
  std::string opname(size_t i) const { return ops[i].name; }
  target_hll_type type_of(size_t i) const { return i < 3 ? hc::TYPES[i] : fs_type; }

  void inject(State& s, uint32_t coupon) {
    for (size_t i = 0; i < 4; ++i) s.sk[i].coupon_update(coupon);
    if (coupon == 0) return;
    s.coupons.insert(coupon);
    uint8_t& r = s.reg[hc::c_addr(coupon) & ((1u << lg_k) - 1)]; if (hc::c_val(coupon) > r) r = (uint8_t)hc::c_val(coupon);
    s.last = coupon; if (!s.first) s.first = coupon;
  }
  State* make() {
    State* s = new State();
    for (size_t i = 0; i < 4; ++i) s->sk.emplace_back((uint8_t)lg_k, type_of(i), i == 3);
    s->reg.assign((size_t)1 << lg_k, 0);
    for (size_t i = 0; i < seed.size(); ++i) inject(*s, seed[i]);
    return s;
  }
  bool apply(State& s, size_t opi, Ctx*) {
    const Op& o = ops[opi]; s.last_kind = (int)o.kind;
    switch (o.kind) {
      case Op::ABS: inject(s, hc::mk_coupon(o.addr, (unsigned)o.arg)); break;
      case Op::REL: { unsigned cur = *std::min_element(s.reg.begin(), s.reg.end()); inject(s, hc::mk_coupon(o.addr, rel_value(o.arg, cur))); break; }
      case Op::DUP_LAST: if (!s.last) return false; inject(s, s.last); break;
      case Op::DUP_FIRST: if (!s.first) return false; inject(s, s.first); break;
      case Op::ROT1: case Op::ROT2: { // every regular sketch is replaced by a converted copy of one of another type
        const int sh = o.kind == Op::ROT1 ? 1 : 2;
        std::vector<Sk> n;
        for (int i = 0; i < 3; ++i) n.emplace_back(s.sk[(i + sh) % 3], hc::TYPES[i]);
        n.emplace_back(Sk(s.sk[3], hc::TYPES[(fs_type + sh) % 3]), fs_type);   // full-size sketch: there and back through another type
        for (int i = 0; i < 4; ++i) s.sk[i] = std::move(n[i]);
        break; }
      case Op::SER: { std::vector<Sk> n; for (int i = 0; i < 4; ++i) n.push_back(hc::round_trip(s.sk[i], o.arg)); for (int i = 0; i < 4; ++i) s.sk[i] = std::move(n[i]); break; }
      case Op::RESET: for (int i = 0; i < 4; ++i) s.sk[i].reset(); s.coupons.clear(); std::fill(s.reg.begin(), s.reg.end(), 0); s.last = s.first = 0; break;
    }
    return true;
  }
  std::string canon(State& s) {
    std::string c;
    for (int i = 0; i < 4; ++i) c += hc::canon(s.sk[i], hip_in_canon) + "|";
    // model: while a regular sketch is still in a coupon mode the oracle consults the coupon set; once all are in HLL mode only the
    // per-slot maxima (and emptiness) are consulted until the next reset, which clears the set
    bool coupon_mode = false; for (int i = 0; i < 3; ++i) if (s.sk[i].get_current_mode() != HLL) coupon_mode = true;
    if (coupon_mode) { c += "M"; for (std::set<uint32_t>::const_iterator i = s.coupons.begin(); i != s.coupons.end(); ++i) c += str(*i) + ","; }
    else c += "R" + hc::regs_str(s.reg);
    if (has_dup) c += "L" + str(s.last) + "F" + str(s.first);   // only the duplicate operations depend on them
    return c;
  }

  struct Obs { int mode; double est, comp, lb[3], ub[3]; };

  // all single-sketch clauses of the statement for one sketch x that must hold the model's content
  Obs check_one(const std::string& lab, const Sk& x, target_hll_type want_type, State& s, const hc::Derived& d, Ctx& c, bool decode_image) {
    Obs o;
    const std::string p = lab + ":";
    View v = hc::view_private(x, &c, p);
    o.mode = v.mode;
    HC_EQ("lg_k", (int)x.get_lg_config_k(), lg_k);
    HC_EQ("target-type", (int)x.get_target_type(), (int)want_type);
    HC_EQ("mode-public==private", (int)x.get_current_mode(), v.mode);
    HC_EQ("is_empty", x.is_empty(), s.coupons.empty());
    HC_OK("not-out-of-order", !x.is_out_of_order_flag(), "out-of-order flag set on a sketch that was only updated");
    if (v.mode != HLL) {
      if (!(v.coupons.size() == s.coupons.size() && std::equal(v.coupons.begin(), v.coupons.end(), s.coupons.begin()))) c.fail(p + "coupons==distinct-inputs", hc::coupons_diff(v.coupons, s.coupons));
    } else {
      if (v.regs != s.reg) c.fail(p + "registers==per-slot-max", hc::first_diff(v.regs, s.reg));
      HC_OK("no-rebuild-flag", !v.rebuild, "deferred-rebuild flag set outside a union");
      // cur_min / num_at_cur_min against their definitions
      const bool def_min = v.cur_min == d.minv && v.num_at_cur_min == d.n_at_min;       // (minimum register, slots at the minimum)
      const bool def_zero = v.cur_min == 0 && v.num_at_cur_min == d.zeros;                // HLL_6/HLL_8 convention: (0, number of zero slots)
      HC_OK("curmin,numAtCurMin==definition", v.type == HLL_4 ? def_min : (def_min || def_zero),
            "cur_min " + str(v.cur_min) + " num_at_cur_min " + str(v.num_at_cur_min) + " but registers have " + str(d.zeros) + " zeros, min " + str(d.minv) + " x" + str(d.n_at_min));
      HC_NEAR("kxq0==sum-2^-reg", v.kxq0, d.kxq0, 1e-9, 1e-12);
      HC_NEAR("kxq1==sum-2^-reg", v.kxq1, d.kxq1, 1e-9, 1e-24);
    }
    if (decode_image) { // independent route: documented image of an HLL_8 copy
      View iv; std::string err;
      if (!hc::view_image(x, iv, err)) c.fail(p + "image-decodes", err);
      else {
        HC_EQ("image-mode", iv.mode, v.mode); HC_EQ("image-lg_k", iv.lg_k, lg_k); HC_EQ("image-type", iv.type, (int)HLL_8);
        if (iv.mode != HLL) {
          if (!(iv.coupons.size() == s.coupons.size() && std::equal(iv.coupons.begin(), iv.coupons.end(), s.coupons.begin()))) c.fail(p + "image-coupons==distinct-inputs", hc::coupons_diff(iv.coupons, s.coupons));
          HC_EQ("image-coupon-count", (size_t)iv.coupon_count, s.coupons.size());
        } else {
          if (iv.regs != s.reg) c.fail(p + "image-registers==per-slot-max", hc::first_diff(iv.regs, s.reg));
          HC_OK("image-curmin,numAtCurMin==definition", (iv.cur_min == 0 && iv.num_at_cur_min == d.zeros) || (iv.cur_min == d.minv && iv.num_at_cur_min == d.n_at_min),
               "image cur_min " + str(iv.cur_min) + " num_at_cur_min " + str(iv.num_at_cur_min));
          HC_NEAR("image-kxq0", iv.kxq0, d.kxq0, 1e-9, 1e-12); HC_NEAR("image-kxq1", iv.kxq1, d.kxq1, 1e-9, 1e-24);
          HC_EQ("image-aux-count-0", iv.aux_count, 0u);
        }
      }
    }
    o.est = x.get_estimate(); o.comp = x.get_composite_estimate();
    for (uint8_t sd = 1; sd <= 3; ++sd) { o.lb[sd - 1] = x.get_lower_bound(sd); o.ub[sd - 1] = x.get_upper_bound(sd); }
    const bool ordered = o.lb[2] <= o.lb[1] && o.lb[1] <= o.lb[0] && o.lb[0] <= o.est && o.est <= o.ub[0] && o.ub[0] <= o.ub[1] && o.ub[1] <= o.ub[2];
    HC_OK("lb3<=lb2<=lb1<=est<=ub1<=ub2<=ub3", ordered, "lb " + str(o.lb[2]) + " " + str(o.lb[1]) + " " + str(o.lb[0]) + " est " + str(o.est) + " ub " + str(o.ub[0]) + " " + str(o.ub[1]) + " " + str(o.ub[2]));
    HC_OK("estimate-finite>=0", std::isfinite(o.est) && o.est >= 0 && std::isfinite(o.comp) && o.comp >= 0, "estimate " + str(o.est) + " composite " + str(o.comp));
    if (s.coupons.empty()) HC_EQ("estimate-of-empty", o.est, 0.0);
    return o;
  }

  void check(State& s, Ctx& c) {
    static const char* LAB[4] = { "H4", "H6", "H8", "FS" };
    static const std::string CONV[4][3] = { { "H4>H4", "H4>H6", "H4>H8" }, { "H6>H4", "H6>H6", "H6>H8" }, { "H8>H4", "H8>H6", "H8>H8" }, { "FS>H4", "FS>H6", "FS>H8" } };
    const hc::Derived d = hc::derive(s.reg);
    Obs all[16]; const std::string* labs[16]; static const std::string MAINLAB[4] = { "H4", "H6", "H8", "FS" };
    Obs main[4]; int n = 0;
    for (int i = 0; i < 4; ++i) {
      main[i] = check_one(MAINLAB[i], s.sk[i], type_of(i), s, d, c, true); all[n] = main[i]; labs[n++] = &MAINLAB[i];
      for (int t = 0; t < 3; ++t) { // a converted copy into every type (its own type: the plain-copy route)
        const std::string& p = CONV[i][t];
        Sk conv(s.sk[i], hc::TYPES[t]);
        Obs o = check_one(p, conv, hc::TYPES[t], s, d, c, false);
        HC_EQ(":mode==source-mode", o.mode, main[i].mode);
        HC_NEAR(":estimate==source-estimate", o.est, main[i].est, 1e-9, 1e-12);
        all[n] = o; labs[n++] = &p;
      }
    }
    // the three regular sketches move through the modes together and agree on the in-order estimate and its bounds
    for (int i = 1; i < 3; ++i) {
      const std::string& p = MAINLAB[i];
      HC_EQ(":mode==H4-mode", main[i].mode, main[0].mode);
      HC_NEAR(":estimate==H4-estimate", main[i].est, main[0].est, 1e-9, 1e-12);
      for (int sd = 0; sd < 3; ++sd) { HC_NEAR(":lb==H4-lb", main[i].lb[sd], main[0].lb[sd], 1e-9, 1e-12); HC_NEAR(":ub==H4-ub", main[i].ub[sd], main[0].ub[sd], 1e-9, 1e-12); }
    }
    if (main[3].mode != HLL) c.fail("FS:mode-is-HLL", "sketch started full-size is in mode " + std::string(hc::mode_name(main[3].mode)));
    // composite estimate: one value per representation class (coupon modes / HLL mode), whatever the type
    int first_hll = -1, first_cpn = -1;
    for (int i = 0; i < n; ++i) {
      int& f = all[i].mode == HLL ? first_hll : first_cpn;
      if (f < 0) { f = i; continue; }
      if (!hc::near_eq(all[i].comp, all[f].comp, 1e-9, 1e-12)) c.fail(*labs[i] + ":composite==composite-of-" + *labs[f], "got " + str(all[i].comp) + " expected " + str(all[f].comp));
    }
    (void)LAB;
    // vacuity tag
    static const char* KIND[8] = { "abs", "rel", "dup", "dup", "conv", "conv", "ser", "reset" };
    std::string tag = std::string(hc::mode_name(main[0].mode));
    if (main[0].mode == HLL) {
      const HllArray<hc::A>* h4 = static_cast<const HllArray<hc::A>*>(s.sk[0].sketch_impl);
      const unsigned cm = h4->curMin_; const AuxHashMap<hc::A>* aux = h4->getAuxHashMap(); const uint32_t ac = aux ? aux->auxCount : 0;
      tag += std::string("|cm") + (cm == 0 ? "0" : cm < 3 ? "1-2" : cm < 40 ? "3+" : "40+") + "|aux" + (ac == 0 ? "0" : ac == 1 ? "1" : "2+");
    } else tag += s.coupons.empty() ? "|empty" : "|n>0";
    tag += std::string("|after-") + (s.last_kind < 0 ? "start" : KIND[s.last_kind]);
    c.rep.outcome(tag);
  }
};

// ---- complete typed grid: every public update overload against the independent hash ---------------------
static void typed_grid_check(Report& rep, const Config& cfg) {
  if (!cfg.replay_scenario.empty() && cfg.replay_scenario != "typed-grid") return;
  if (!cfg.only.empty() && std::string("typed-grid").find(cfg.only) == std::string::npos) return;
  std::vector<tc::Val> g = tc::typed_grid();
  std::set<std::string> kinds; uint64_t ignored = 0, cases = 0;
  for (size_t i = 0; i < g.size(); ++i) for (int t = 0; t < 3; ++t) {
    std::string hist = g[i].label + "/" + hc::type_name(hc::TYPES[t]);
    if (!cfg.replay_history.empty() && cfg.replay_history != hist) continue;
    if (!journal("typed-grid", hist)) continue;
    Ctx c(rep, "typed-grid", hist); int a0 = asan_errors();
    oracle::H128 h; const bool valid = tc::oracle_hash128(g[i], DEFAULT_SEED, h);
    const uint32_t want = valid ? hc::coupon_of_hash(h) : 0;
    // (a) LIST mode exposes the coupon: private array and the public compact image
    const int lgs[2] = { 4, 12 };
    for (int li = 0; li < 2; ++li) {
      Sk sk((uint8_t)lgs[li], hc::TYPES[t]);
      tc::do_update(sk, g[i]);
      View v = hc::view_private(sk, &c, "list:");
      Sk::vector_bytes img = sk.serialize_compact(); View iv; std::string err;
      if (!hc::decode_image(img.data(), img.size(), iv, err)) { c.fail("list:image-decodes", err); continue; }
      if (!valid) { c.ok("ignored-input-leaves-empty", sk.is_empty() && v.coupons.empty() && iv.coupons.empty(), "an input that must be ignored changed the sketch"); continue; }
      c.ok("nonempty-after-update", !sk.is_empty());
      if (c.eq("one-coupon", v.coupons.size(), (size_t)1)) c.eq("coupon==(min(nlz(h2),62)+1)<<26|h1&mask26", v.coupons[0], want);
      if (c.eq("image-one-coupon", iv.coupons.size(), (size_t)1)) c.eq("image-coupon", iv.coupons[0], want);
      tc::do_update(sk, g[i]);
      c.eq("same-input-twice-one-coupon", hc::view_private(sk, nullptr, "").coupons.size(), (size_t)1);
    }
    // (b) HLL mode from the start: exactly the addressed register takes the value
    const int lgf[3] = { 4, 11, 21 };
    for (int li = 0; li < 3; ++li) {
      const int lg = lgf[li];
      Sk fs((uint8_t)lg, hc::TYPES[t], true);
      tc::do_update(fs, g[i]);
      const HllArray<hc::A>* ha = static_cast<const HllArray<hc::A>*>(fs.sketch_impl);
      if (!valid) { c.ok("full:ignored-input-leaves-empty", fs.is_empty() && ha->numAtCurMin_ == (1u << lg), "an input that must be ignored changed the sketch"); continue; }
      const uint32_t slot = hc::c_addr(want) & ((1u << lg) - 1);
      c.eq("full:register[h1&(k-1)]==value", hc::reg_at(fs, slot), hc::c_val(want));
      c.eq("full:one-register-changed", ha->numAtCurMin_, (1u << lg) - 1);
      c.ok("full:nonempty", !fs.is_empty());
    }
    if (asan_errors() != a0) c.fail("asan", "AddressSanitizer report in this case");
    rep.flush_ctx_fails(c.fails, "typed-grid", hist);
    rep.evaluations++; rep.states++; rep.transitions++; rep.traces++; ++cases; if (!valid) ++ignored;
    kinds.insert(g[i].label.substr(0, 3));
    rep.outcome(std::string("grid|") + g[i].label.substr(0, 3) + (valid ? (hc::c_val(want) > 1 ? "|value>1" : "|value1") : "|ignored"));
  }
  journal_clear();
  rep.scenarios.push_back("typed-grid: " + str(cases) + " (value,type) cases over " + str(kinds.size()) + " overloads, " + str(ignored) + " ignored inputs; LIST-mode coupon at lg_k 4,12 and full-size register at lg_k 4,11,21");
  rep.sample("typed-grid: " + g[7].label + ", " + g[g.size() / 2].label);
}

// ---- scenario construction ----------------------------------------------------------------------
static uint32_t hi_bits(uint32_t slot, int lg_k) { return ((slot * 2654435761u) & ~((1u << lg_k) - 1)) & hc::ADDR_MASK; }

struct E2Plan { HllSys sys; std::vector<size_t> def, menu; };
static E2Plan make_e2(int lg_k, target_hll_type fs_type) {
  E2Plan p; HllSys& sys = p.sys; sys.lg_k = lg_k; sys.fs_type = fs_type; sys.hip_in_canon = true;
  const uint32_t k = 1u << lg_k;
  // default path: rounds over all slots; every round end empties the set of slots at the minimum (HLL_4 cur-min shift; a jump of 2 shifts twice)
  std::vector<unsigned> rounds;
  if (lg_k == 4) { const unsigned r[] = {1, 2, 4, 5, 6, 7}; rounds.assign(r, r + 6); }
  else if (lg_k == 5) { const unsigned r[] = {1, 2, 4}; rounds.assign(r, r + 3); }
  else if (lg_k <= 7) { const unsigned r[] = {1, 3}; rounds.assign(r, r + 2); }
  else { const unsigned r[] = {1}; rounds.assign(r, r + 1); }
  for (size_t r = 0; r < rounds.size(); ++r) for (uint32_t s = 0; s < k; ++s) {
    p.def.push_back(sys.ops.size());
    sys.ops.push_back(op_abs(s | ((s & 1) ? hi_bits(s, lg_k) : 0), rounds[r], lg_k));
  }
  if (lg_k >= 8) for (uint32_t s = 0; s < 16; ++s) { p.def.push_back(sys.ops.size()); sys.ops.push_back(op_abs(s * 13 % k, 17 + (s & 1), lg_k)); }   // exceptions at cur_min 1
  // deviation menu
  const uint32_t slots[4] = { 0, 1 | hi_bits(1, lg_k), (k - 2) | hi_bits(k - 2, lg_k), k - 1 };
  for (int si = 0; si < 4; ++si) for (int kind = 0; kind < 10; ++kind) { p.menu.push_back(sys.ops.size()); sys.ops.push_back(op_rel(slots[si], kind, lg_k)); }
  p.menu.push_back(sys.ops.size()); sys.ops.push_back(op_simple(Op::DUP_LAST, 0, "dup-last"));
  p.menu.push_back(sys.ops.size()); sys.ops.push_back(op_simple(Op::DUP_FIRST, 0, "dup-first"));
  p.menu.push_back(sys.ops.size()); sys.ops.push_back(op_simple(Op::ROT1, 0, "convert+1"));
  p.menu.push_back(sys.ops.size()); sys.ops.push_back(op_simple(Op::ROT2, 0, "convert+2"));
  for (int sk = 0; sk < 4; ++sk) { p.menu.push_back(sys.ops.size()); sys.ops.push_back(op_simple(Op::SER, sk, hc::ser_name(sk))); }
  p.menu.push_back(sys.ops.size()); sys.ops.push_back(op_simple(Op::RESET, 0, "reset"));
  return p;
}

struct Seed { std::string name; std::vector<uint32_t> coupons; unsigned va; };
static std::vector<Seed> make_seeds(int lg_k) {
  std::vector<Seed> out; const uint32_t k = 1u << lg_k;
  const unsigned vas[3] = { 1, 0, 3 }, offs[2] = { 1, 2 }, excs[4] = { 0, 15, 16, 30 };
  for (int a = 0; a < 3; ++a) for (int o = 0; o < 2; ++o) for (int e = 0; e < 4; ++e) {
    Seed s; s.va = vas[a]; s.name = "bg" + str(vas[a]) + "+" + str(offs[o]) + (excs[e] ? "/exc+" + str(excs[e]) : "");
    for (uint32_t slot = 0; slot < k; ++slot) {
      const bool active = slot == 0 || slot == 1 || slot == k - 1;
      if (active) { if (vas[a]) s.coupons.push_back(hc::mk_coupon(slot, vas[a])); }
      else if (slot == 6 && excs[e]) s.coupons.push_back(hc::mk_coupon(slot | hi_bits(slot, lg_k), vas[a] + excs[e]));
      else s.coupons.push_back(hc::mk_coupon(slot, vas[a] + offs[o]));
    }
    out.push_back(s);
  }
  for (int n = 5; n <= 7; n += 2) { Seed s; s.va = 0; s.name = "list" + str(n); for (int i = 0; i < n; ++i) s.coupons.push_back(hc::mk_coupon(3 + i, 2)); out.push_back(s); }
  { Seed s; s.va = 0; s.name = "promoted8"; for (int i = 0; i < 8; ++i) s.coupons.push_back(hc::mk_coupon(3 + i, 2 + (i == 4 ? 15 : 0))); out.push_back(s); }
  return out;
}
static HllSys make_e1(int lg_k, target_hll_type fs_type, const Seed& sd, int nslots) {
  HllSys sys; sys.lg_k = lg_k; sys.fs_type = fs_type; sys.seed = sd.coupons; sys.hip_in_canon = false; sys.has_dup = false;
  const uint32_t k = 1u << lg_k;
  std::set<unsigned> vals; const unsigned va = sd.va;
  const unsigned cand[8] = { va < 1 ? 1 : va, va + 1, va + 2, va + 3, va + 15, va + 16, 63, va + 14 };
  for (int i = 0; i < 8 && vals.size() < 7; ++i) vals.insert(cand[i]);
  const uint32_t act[4] = { 0, 1, k - 1, k - 2 };   // the 4th active slot (thorough) is a background slot: it starts at the background value
  for (int a = 0; a < nslots; ++a) for (std::set<unsigned>::const_iterator v = vals.begin(); v != vals.end(); ++v) sys.ops.push_back(op_abs(act[a], *v, lg_k));
  sys.ops.push_back(op_simple(Op::ROT1, 0, "convert+1"));
  sys.ops.push_back(op_simple(Op::SER, hc::SER_UPDATABLE_BYTES, hc::ser_name(hc::SER_UPDATABLE_BYTES)));
  sys.ops.push_back(op_simple(Op::SER, hc::SER_COMPACT_BYTES, hc::ser_name(hc::SER_COMPACT_BYTES)));
  sys.nm = "e1/lgk" + str(lg_k) + "/fs" + hc::type_name(fs_type) + "/" + sd.name + "/act" + str(nslots);
  return sys;
}

int main(int argc, char** argv) {
  Config cfg = parse_args(argc, argv);
  std::string ht = oracle::self_test();
  if (!ht.empty()) { fprintf(stderr, "HARNESS-ERROR oracle hash self-test failed: %s\n", ht.c_str()); return 3; }
  forbid_unowned_draws();
  const bool replay = !cfg.replay_scenario.empty();   // a replay must find its scenario whatever tier recorded it: build both tiers' scenarios
  std::vector<Task> tasks; std::set<std::string> names;
  std::vector<std::pair<int, Task> > weighted;   // (rough cost, task): the costliest tasks are started first
  { Task t; t.name = "typed-grid"; t.fn = [&cfg](Report& rep) {
      typed_grid_check(rep, cfg);
      rep.assumptions.push_back("coupons are injected through the private hll_sketch::coupon_update(value<<26|address); the public update overloads are tied to it by the typed grid (independent MurmurHash3_x64_128, seed 9001) in LIST mode (lg_k 4, 12) and in a full-size sketch (lg_k 4, 11, 21)");
      rep.assumptions.push_back("enumeration at lg_k 4,5,7,8 (thorough: also 6 and 9); LIST->HLL at the 8th coupon for lg_k<8, LIST->SET->HLL for lg_k>=8; register values 1..63");
      rep.assumptions.push_back("E1 canon leaves out the HIP accumulator (it depends on the arrival order; its increment is a function of kxq0+kxq1 which are in the canon and exact in binary floating point at these sizes); the HIP clauses are evaluated on every transition of the BFS instead of on new states only");
      rep.assumptions.push_back("cur_min/num_at_cur_min: HLL_4 must hold (minimum register, slots at the minimum); HLL_6/HLL_8 may hold either that pair or (0, number of zero slots), the convention documented in HllArray-internal.hpp");
      rep.sets("rule", "E2: every path with <=d inserted deviations from a default coupon stream that walks LIST->(SET->)HLL and several HLL_4 cur-min shifts; E1: BFS to fixpoint over 3 (thorough, lg_k 4: 4) active slots x 7 values (+conversion, +2 serialization round trips) from seeded register backgrounds; grid: every update overload x boundary values x 3 types. Four sketches (HLL_4, HLL_6, HLL_8, one started full-size) run in lock-step with a set<coupon>/reg[] model; in every state each sketch and a converted copy of each into each type is compared with the model. Distinct = distinct (mode, cur_min bucket, exception count bucket, last operation kind) tag.");
    }; tasks.push_back(t); }

  for (int tier = 0; tier < 2; ++tier) {
  const bool q = replay ? tier == 0 : cfg.quick();
  if (!replay && tier) break;
  // E2: deviation-bounded paths. One deviation: the menu is partitioned over tasks (exact). Two deviations (thorough): a sub-menu is
  // split into groups of 4 and every unordered pair of groups gets a task, so every pair of entries is covered.
  std::vector<int> lgs; lgs.push_back(4); lgs.push_back(5); if (!q) lgs.push_back(6); lgs.push_back(7); lgs.push_back(8); if (!q) lgs.push_back(9);
  for (size_t li = 0; li < lgs.size(); ++li) {
    const int lg = lgs[li]; const target_hll_type fst = hc::TYPES[(lg + 2) % 3];   // lg 4 -> HLL_4, 5 -> HLL_6, 6 -> HLL_8, 7 -> HLL_4, 8 -> HLL_6 ...
    E2Plan p = make_e2(lg, fst);
    const size_t parts = lg >= 7 ? 6 : 3;
    for (size_t part = 0; part < parts; ++part) {
      E2Plan pp = p; pp.menu.clear();
      for (size_t i = part; i < p.menu.size(); i += parts) pp.menu.push_back(p.menu[i]);
      pp.sys.nm = "e2/lgk" + str(lg) + "/fs" + hc::type_name(fst) + "/dev1/part" + str(part);
      PathLimits pl; pl.max_dev = 1; pl.check_stride = replay ? 1 : lg <= 4 ? 1 : lg == 5 ? 2 : lg <= 7 ? (q ? 8 : 4) : (q ? 16 : 8);
      Task t; t.name = pp.sys.nm; t.fn = [pp, pl, &cfg](Report& rep) mutable { explore_paths(pp.sys, pp.def, pp.menu, rep, cfg, pl); };
      if (names.insert(t.name).second) weighted.push_back(std::make_pair(lg >= 9 ? 60 : 10, t));
    }
    if (!q && lg <= 5) {
      // sub-menu for pairs of deviations: 20 entries at lg_k 4 (5 groups of 4), 8 entries at lg_k 5 (2 groups of 4)
      std::vector<size_t> sub; const uint32_t k = 1u << lg;
      for (size_t i = 0; i < p.menu.size(); ++i) {
        const Op& o = p.sys.ops[p.menu[i]];
        const uint32_t slot = o.addr & (k - 1);
        bool take = false;
        if (lg == 4) {
          if (o.kind == Op::REL) take = ((slot == 0 || slot == k - 1) && o.arg != 1 && o.arg != 6 && o.arg != 8) || (slot == 1 && o.arg == 4);
          else take = !(o.kind == Op::SER && (o.arg == hc::SER_COMPACT_STREAM || o.arg == hc::SER_UPDATABLE_STREAM)) && o.kind != Op::DUP_FIRST && o.kind != Op::ROT2;
        } else {
          if (o.kind == Op::REL) take = (slot == 0 && (o.arg == 4 || o.arg == 5 || o.arg == 9)) || (slot == k - 1 && (o.arg == 3 || o.arg == 4));
          else take = o.kind == Op::ROT1 || o.kind == Op::RESET || (o.kind == Op::SER && o.arg == hc::SER_COMPACT_BYTES);
        }
        if (take) sub.push_back(p.menu[i]);
      }
      const size_t G = lg == 4 ? 5 : 2;
      for (size_t a = 0; a < G; ++a) for (size_t b = a; b < G; ++b) {
        E2Plan pp = p; pp.menu.clear();
        for (size_t i = 0; i < sub.size(); ++i) if (i % G == a || i % G == b) pp.menu.push_back(sub[i]);
        pp.sys.nm = "e2/lgk" + str(lg) + "/fs" + hc::type_name(fst) + "/dev2/groups" + str(a) + "+" + str(b);
        PathLimits pl; pl.max_dev = 2; pl.check_stride = replay ? 1 : 12;
        Task t; t.name = pp.sys.nm; t.fn = [pp, pl, &cfg](Report& rep) mutable { explore_paths(pp.sys, pp.def, pp.menu, rep, cfg, pl); };
        if (names.insert(t.name).second) weighted.push_back(std::make_pair((a == b ? 40 : 150) + lg, t));
      }
    }
  }
  // E1: seeded backgrounds to fixpoint
  for (int lg = 4; lg <= 5; ++lg) {
    std::vector<Seed> seeds = make_seeds(lg);
    for (size_t i = 0; i < seeds.size(); ++i) {
      if (q && lg == 5 && (i % 4) != 1 && i < 24) continue;      // quick: at lg_k 5 only the backgrounds whose exception sits exactly at +15
      if (q && lg == 4 && i < 24 && (i / 8) == 2 && (i % 4) >= 2) continue;
      HllSys sys = make_e1(lg, hc::TYPES[(i + lg) % 3], seeds[i], (q || lg == 5) ? 3 : 4);
      BfsLimits lim; lim.max_depth = 64; lim.max_states = 400000; lim.check_every_transition = true;
      Task t; t.name = sys.nm; t.fn = [sys, lim, &cfg](Report& rep) mutable { explore(sys, rep, cfg, lim); };
      if (names.insert(t.name).second) weighted.push_back(std::make_pair(q ? 5 : 15, t));
    }
  }
  }
  std::stable_sort(weighted.begin(), weighted.end(), [](const std::pair<int, Task>& a, const std::pair<int, Task>& b) { return a.first > b.first; });
  for (size_t i = 0; i < weighted.size(); ++i) tasks.push_back(weighted[i].second);
  return run_tasks(cfg, "C03", tasks);
}
