// mc/oracle_hash.hpp -- independent re-implementations of MurmurHash3_x64_128 and XXH64, written from
// the published algorithms (byte-at-a-time little-endian loads, no code shared with the repository),
// validated at start-up against published test vectors.
#ifndef MC_ORACLE_HASH_HPP
#define MC_ORACLE_HASH_HPP
#include <cstdint>
#include <cstring>
#include <string>
#include <cmath>

namespace oracle {

inline uint64_t ld64(const unsigned char* p) { uint64_t v = 0; for (int i = 7; i >= 0; --i) v = (v << 8) | p[i]; return v; }
inline uint32_t ld32(const unsigned char* p) { uint32_t v = 0; for (int i = 3; i >= 0; --i) v = (v << 8) | p[i]; return v; }
inline uint64_t rotl(uint64_t x, int r) { return (x << r) | (x >> (64 - r)); }
inline uint64_t fmix(uint64_t k) { k ^= k >> 33; k *= 0xff51afd7ed558ccdULL; k ^= k >> 33; k *= 0xc4ceb9fe1a85ec53ULL; k ^= k >> 33; return k; }

struct H128 { uint64_t h1, h2; };

inline H128 murmur3_x64_128(const void* key, size_t len, uint64_t seed) {
  const unsigned char* d = static_cast<const unsigned char*>(key);
  const uint64_t c1 = 0x87c37b91114253d5ULL, c2 = 0x4cf5ad432745937fULL;
  uint64_t h1 = seed, h2 = seed;
  size_t nb = len / 16;
  for (size_t i = 0; i < nb; ++i) {
    uint64_t k1 = ld64(d + 16 * i), k2 = ld64(d + 16 * i + 8);
    k1 *= c1; k1 = rotl(k1, 31); k1 *= c2; h1 ^= k1;
    h1 = rotl(h1, 27); h1 += h2; h1 = h1 * 5 + 0x52dce729;
    k2 *= c2; k2 = rotl(k2, 33); k2 *= c1; h2 ^= k2;
    h2 = rotl(h2, 31); h2 += h1; h2 = h2 * 5 + 0x38495ab5;
  }
  const unsigned char* t = d + 16 * nb; size_t r = len & 15;
  uint64_t k1 = 0, k2 = 0;
  for (size_t i = r; i > 8; --i) k2 = (k2 << 8) | t[i - 1];
  if (r > 8) { k2 *= c2; k2 = rotl(k2, 33); k2 *= c1; h2 ^= k2; }
  for (size_t i = (r > 8 ? 8 : r); i > 0; --i) k1 = (k1 << 8) | t[i - 1];
  if (r > 0) { k1 *= c1; k1 = rotl(k1, 31); k1 *= c2; h1 ^= k1; }
  h1 ^= (uint64_t)len; h2 ^= (uint64_t)len;
  h1 += h2; h2 += h1; h1 = fmix(h1); h2 = fmix(h2); h1 += h2; h2 += h1;
  H128 o; o.h1 = h1; o.h2 = h2; return o;
}

inline uint64_t xxh64(const void* data, size_t len, uint64_t seed) {
  const uint64_t P1 = 11400714785074694791ULL, P2 = 14029467366897019727ULL, P3 = 1609587929392839161ULL, P4 = 9650029242287828579ULL, P5 = 2870177450012600261ULL;
  const unsigned char* p = static_cast<const unsigned char*>(data); const unsigned char* end = p + len;
  uint64_t h;
  if (len >= 32) {
    uint64_t v1 = seed + P1 + P2, v2 = seed + P2, v3 = seed, v4 = seed - P1;
    while (p + 32 <= end) {
      v1 = rotl(v1 + ld64(p) * P2, 31) * P1; p += 8;
      v2 = rotl(v2 + ld64(p) * P2, 31) * P1; p += 8;
      v3 = rotl(v3 + ld64(p) * P2, 31) * P1; p += 8;
      v4 = rotl(v4 + ld64(p) * P2, 31) * P1; p += 8;
    }
    h = rotl(v1, 1) + rotl(v2, 7) + rotl(v3, 12) + rotl(v4, 18);
    uint64_t vs[4] = { v1, v2, v3, v4 };
    for (int i = 0; i < 4; ++i) { uint64_t v = rotl(vs[i] * P2, 31) * P1; h ^= v; h = h * P1 + P4; }
  } else h = seed + P5;
  h += (uint64_t)len;
  while (p + 8 <= end) { uint64_t k = rotl(ld64(p) * P2, 31) * P1; h ^= k; h = rotl(h, 27) * P1 + P4; p += 8; }
  if (p + 4 <= end) { h ^= (uint64_t)ld32(p) * P1; h = rotl(h, 23) * P2 + P3; p += 4; }
  while (p < end) { h ^= (*p) * P5; h = rotl(h, 11) * P1; ++p; }
  h ^= h >> 33; h *= P2; h ^= h >> 29; h *= P3; h ^= h >> 32;
  return h;
}

// DataSketches input canonicalisation (Java convention)
inline uint64_t canon_double_bits(double d) {
  if (d == 0.0) d = 0.0;                       // -0.0 -> 0.0
  if (std::isnan(d)) return 0x7ff8000000000000ULL;
  uint64_t b; memcpy(&b, &d, 8); return b;
}
inline H128 hash_i64(int64_t v, uint64_t seed) { unsigned char b[8]; uint64_t u = (uint64_t)v; for (int i = 0; i < 8; ++i) b[i] = (unsigned char)(u >> (8 * i)); return murmur3_x64_128(b, 8, seed); }
inline H128 hash_double(double d, uint64_t seed) { return hash_i64((int64_t)canon_double_bits(d), seed); }
inline H128 hash_bytes(const void* p, size_t n, uint64_t seed) { return murmur3_x64_128(p, n, seed); }
inline uint64_t theta_hash(const H128& h) { return h.h1 >> 1; }

inline uint16_t seed_hash(uint64_t seed) { unsigned char b[8]; for (int i = 0; i < 8; ++i) b[i] = (unsigned char)(seed >> (8 * i)); return (uint16_t)(murmur3_x64_128(b, 8, 0).h1 & 0xffff); }

// self-test against published vectors; returns empty string if ok
inline std::string self_test() {
  // MurmurHash3_x64_128 vectors (reference implementation, widely reproduced)
  { H128 h = murmur3_x64_128("", 0, 0); if (h.h1 != 0 || h.h2 != 0) return "murmur empty seed 0"; }
  { H128 h = murmur3_x64_128("The quick brown fox jumps over the lazy dog", 43, 0);
    if (h.h1 != 0xe34bbc7bbc071b6cULL || h.h2 != 0x7a433ca9c49a9347ULL) return "murmur fox"; }
  { H128 h = murmur3_x64_128("hello", 5, 0); if (h.h1 != 0xcbd8a7b341bd9b02ULL || h.h2 != 0x5b1e906a48ae1d19ULL) return "murmur hello"; }
  // XXH64 vectors from the xxHash specification
  if (xxh64("", 0, 0) != 0xef46db3751d8e999ULL) return "xxh64 empty";
  if (xxh64("a", 1, 0) != 0xd24ec4f1a98c6e5bULL) return "xxh64 a";
  if (xxh64("abc", 3, 0) != 0x44bc2cf5ad770999ULL) return "xxh64 abc";
  if (xxh64("Nobody inspects the spammish repetition", 39, 0) != 0xfbcea83c8a378bf1ULL) return "xxh64 spam";
  if (seed_hash(9001) != 0x93cc) return "seed hash of 9001";
  return "";
}

} // namespace oracle
#endif
