// mc/paths.hpp -- E2: deviation-bounded path enumeration over the same System concept as mc/bfs.hpp.
// A default path (a long canonical operation sequence that walks through the structural transitions)
// is run with every set of <= d deviations, a deviation being the insertion of one operation of the
// deviation menu before a position of the default path. Every path is run to completion on fresh
// objects; the oracle is evaluated after every step from the first deviation on (the undeviated prefix
// is checked by the 0-deviation run). Draws are supplied by `draw_fill` (deterministic), so E2 is for
// deterministic families or a fixed coin schedule.
#ifndef MC_PATHS_HPP
#define MC_PATHS_HPP
#include "core.hpp"
#include "choice.hpp"
#include <memory>

namespace mc {

struct PathLimits { int max_dev = 1; uint64_t bit_fill = 0; uint64_t raw_fill = 0x8000000000000000ULL; size_t check_stride = 1; };

template<class Sys>
struct Paths {
  typedef typename Sys::State State;
  Sys& sys; Report& rep; PathLimits lim;
  std::vector<size_t> def, menu;
  uint64_t paths = 0, steps = 0; int dev_completed = -1; bool deadline_hit = false;
  Paths(Sys& s, Report& r, const PathLimits& l): sys(s), rep(r), lim(l) {}

  std::string path_str(const std::vector<std::pair<size_t, size_t> >& devs) const {
    std::string s = "default[" + std::to_string(def.size()) + "]";
    for (size_t i = 0; i < devs.size(); ++i) s += ";@" + std::to_string(devs[i].first) + "+" + sys.opname(devs[i].second);
    return s;
  }
  // devs: sorted by position; (position in default path before which to insert, op)
  void run_path(const std::vector<std::pair<size_t, size_t> >& devs) {
    std::string ps = path_str(devs);
    if (!journal(sys.name(), ps)) return;
    std::unique_ptr<State> s(sys.make());
    size_t di = 0; size_t first_dev = devs.empty() ? 0 : devs[0].first; size_t n = 0;
    Ctx ctx(rep, sys.name(), ps); int a0 = asan_errors();
    for (size_t i = 0; i <= def.size(); ++i) {
      while (di < devs.size() && devs[di].first == i) {
        Tape t; t.bit_fill = lim.bit_fill; t.raw_fill = lim.raw_fill;
        try { TapeScope sc(t); sys.apply(*s, devs[di].second, &ctx); } catch (const std::exception& e) { ctx.fail("unexpected-exception", std::string("operation threw: ") + e.what()); }
        ++di; ++steps; safe_check(sys, *s, ctx);
      }
      if (i == def.size()) break;
      Tape t; t.bit_fill = lim.bit_fill; t.raw_fill = lim.raw_fill;
      try { TapeScope sc(t); sys.apply(*s, def[i], &ctx); } catch (const std::exception& e) { ctx.fail("unexpected-exception", std::string("operation threw: ") + e.what()); }
      ++steps; ++n;
      if (i >= first_dev && (n % lim.check_stride == 0 || i + 1 == def.size())) safe_check(sys, *s, ctx);
      if (!ctx.fails.empty()) break;
    }
    if (asan_errors() != a0) ctx.fail("asan", "AddressSanitizer report on this path");
    rep.flush_ctx_fails(ctx.fails, sys.name(), ps);
    ++paths;
  }
  void rec(std::vector<std::pair<size_t, size_t> >& devs, size_t from_pos, int remaining) {
    if (remaining == 0) { run_path(devs); return; }
    for (size_t pos = from_pos; pos <= def.size(); ++pos)
      for (size_t m = 0; m < menu.size(); ++m) {
        if (rep.past_deadline()) { deadline_hit = true; return; }
        devs.push_back(std::make_pair(pos, menu[m]));
        rec(devs, pos, remaining - 1);
        devs.pop_back();
      }
  }
  void run() {
    double t0 = now_s();
    for (int d = 0; d <= lim.max_dev; ++d) {
      std::vector<std::pair<size_t, size_t> > devs;
      rec(devs, 0, d);
      if (deadline_hit) break;
      dev_completed = d;
    }
    journal_clear();
    rep.states += steps; rep.transitions += steps; rep.traces += paths;
    if (deadline_hit) rep.cap("global deadline reached in " + sys.name() + " paths; deviation bound fully covered: " + std::to_string(dev_completed));
    char b[256]; snprintf(b, sizeof b, "%s paths: default_len=%zu menu=%zu deviations<=%d completed paths=%llu steps=%llu %.1fs",
      sys.name().c_str(), def.size(), menu.size(), dev_completed, (unsigned long long)paths, (unsigned long long)steps, now_s() - t0);
    rep.scenarios.push_back(b);
  }
  // replay "default[n];@pos+op;..."
  void replay(const std::string& ps) {
    std::vector<std::pair<size_t, size_t> > devs;
    std::map<std::string, size_t> idx; for (size_t i = 0; i < sys.nops(); ++i) idx[sys.opname(i)] = i;
    size_t i = ps.find(';');
    while (i != std::string::npos && i + 1 < ps.size()) {
      size_t e = ps.find(';', i + 1); if (e == std::string::npos) e = ps.size();
      std::string tok = ps.substr(i + 1, e - i - 1);
      size_t plus = tok.find('+');
      if (tok.size() > 1 && tok[0] == '@' && plus != std::string::npos) devs.push_back(std::make_pair((size_t)atoll(tok.c_str() + 1), idx[tok.substr(plus + 1)]));
      i = e == ps.size() ? std::string::npos : e;
    }
    run_path(devs);
  }
};

template<class Sys>
void explore_paths(Sys& sys, const std::vector<size_t>& def, const std::vector<size_t>& menu, Report& rep, const Config& cfg, const PathLimits& lim) {
  if (!cfg.only.empty() && sys.name().find(cfg.only) == std::string::npos) return;
  Paths<Sys> p(sys, rep, lim); p.def = def; p.menu = menu;
  if (!cfg.replay_scenario.empty()) {
    if (cfg.replay_scenario != sys.name() || cfg.replay_history.compare(0, 8, "default[") != 0) return;
    p.replay(cfg.replay_history); rep.states += p.steps; rep.transitions += p.steps; return;
  }
  p.run();
}

} // namespace mc
#endif
