// mc/core.hpp -- shared plumbing for all harnesses: configuration, report/evidence JSON,
// violation bookkeeping, crash journaling (fork + shared journal), sanitizer hooks.
#ifndef MC_CORE_HPP
#define MC_CORE_HPP

#include <cstdint>
#include <cstdio>
#include <cstdlib>
#include <cstring>
#include <string>
#include <vector>
#include <map>
#include <set>
#include <sstream>
#include <functional>
#include <chrono>
#include <algorithm>
#include <stdexcept>
#include <unistd.h>
#include <signal.h>
#include <sys/mman.h>
#include <sys/wait.h>

namespace mc {

inline double now_s() {
  using namespace std::chrono;
  return duration_cast<duration<double>>(steady_clock::now().time_since_epoch()).count();
}

inline uint64_t fnv1a(const void* p, size_t n, uint64_t h = 1469598103934665603ULL) {
  const unsigned char* c = static_cast<const unsigned char*>(p);
  for (size_t i = 0; i < n; ++i) { h ^= c[i]; h *= 1099511628211ULL; }
  return h;
}
inline uint64_t fnv1a(const std::string& s, uint64_t h = 1469598103934665603ULL) { return fnv1a(s.data(), s.size(), h); }

inline std::string hex64(uint64_t v) { char b[24]; snprintf(b, sizeof b, "%016llx", (unsigned long long)v); return b; }

template<typename T> std::string str(const T& v) { std::ostringstream o; o.precision(17); o << v; return o.str(); }
inline std::string str(uint8_t v) { return std::to_string((unsigned)v); }
inline std::string str(int8_t v) { return std::to_string((int)v); }
inline std::string str(bool v) { return v ? "1" : "0"; }

inline std::string json_escape(const std::string& s) {
  std::string o; o.reserve(s.size() + 8);
  for (size_t i = 0; i < s.size(); ++i) {
    unsigned char c = (unsigned char)s[i];
    if (c == '"') o += "\\\""; else if (c == '\\') o += "\\\\"; else if (c == '\n') o += "\\n";
    else if (c == '\t') o += "\\t"; else if (c == '\r') o += "\\r";
    else if (c < 0x20 || c >= 0x7f) { char b[8]; snprintf(b, sizeof b, "\\u%04x", c); o += b; }
    else o += (char)c;
  }
  return o;
}

struct Config {
  std::string tier = "quick";
  uint64_t seed = 0;
  std::string out;
  std::string replay_scenario, replay_history, replay_key;
  std::string only;         // restrict to scenarios whose name contains this
  double budget_s = 100;    // global deadline for exploration
  bool quick() const { return tier != "thorough"; }
};

struct Violation {
  std::string key;       // stable, specific: property|scenario-class|check|witness
  std::string what;      // human-readable
  std::string scenario;  // scenario name for replay
  std::string history;   // replayable history (harness-specific encoding)
  uint64_t count = 1;    // how many explored cases hit the same key
};

// A Report is what a harness run produces. Counts are measured, never constants.
struct Report {
  std::string property;
  uint64_t states = 0, transitions = 0, traces = 0, evaluations = 0;
  std::set<std::string> outcomes;             // distinct oracle outcome tags (vacuity guard)
  std::vector<std::string> samples;
  std::vector<Violation> violations;
  std::map<std::string, size_t> vio_index;
  std::map<std::string, std::string> extra;   // raw JSON values
  std::vector<std::string> caps;              // caps / bounds hit
  std::vector<std::string> assumptions;
  std::vector<std::string> scenarios;         // per-scenario one-line summaries
  bool exhaustive = true;
  double t0 = now_s();
  double deadline = 0;

  bool past_deadline() const { return deadline > 0 && now_s() > deadline; }

  // cls = property|scenario|check: one violation is reported per class, with the first (shortest, since
  // exploration is breadth-first and deterministic) witness; the key names class and witness exactly.
  void violation(const std::string& cls, const std::string& what, const std::string& scenario, const std::string& history) {
    std::map<std::string, size_t>::iterator it = vio_index.find(cls);
    if (it != vio_index.end()) { violations[it->second].count++; return; }
    Violation v; v.what = what; v.scenario = scenario; v.history = history;
    std::string w = history.size() <= 240 ? history : history.substr(0, 200) + "...#" + hex64(fnv1a(history));
    v.key = cls + "|" + w;
    vio_index[cls] = violations.size();
    violations.push_back(v);
  }
  void flush_ctx_fails(const std::vector<std::pair<std::string, std::string> >& fails, const std::string& scenario, const std::string& history) {
    for (size_t i = 0; i < fails.size(); ++i)
      violation(property + "|" + scenario + "|" + fails[i].first, fails[i].second, scenario, history);
  }
  void sample(const std::string& s, size_t cap = 12) { if (samples.size() < cap) samples.push_back(s); }
  void outcome(const std::string& s) { if (outcomes.size() < 100000) outcomes.insert(s); }
  // a stated bound that was reached with everything below it explored completely (does not make the run non-exhaustive)
  void bound(const std::string& s) { if (std::find(caps.begin(), caps.end(), s) == caps.end()) caps.push_back(s); }
  void cap(const std::string& s) { if (std::find(caps.begin(), caps.end(), s) == caps.end()) caps.push_back(s); exhaustive = false; }
  void set(const std::string& k, const std::string& raw_json) { extra[k] = raw_json; }
  void setn(const std::string& k, double v) { extra[k] = str(v); }
  void sets(const std::string& k, const std::string& v) { extra[k] = "\"" + json_escape(v) + "\""; }

  std::map<std::string, double> counters;     // summed when task reports are merged
  void count(const std::string& k, double v = 1) { counters[k] += v; }

  // --- flat serialisation used between task children and the parent ---
  static void put(std::string& o, const std::string& s) { o += std::to_string(s.size()) + ":" + s; }
  static void put(std::string& o, uint64_t v) { put(o, std::to_string(v)); }
  static std::string get(const std::string& in, size_t& pos) {
    size_t c = in.find(':', pos); size_t n = (size_t)strtoull(in.c_str() + pos, nullptr, 10);
    std::string r = in.substr(c + 1, n); pos = c + 1 + n; return r;
  }
  static uint64_t getn(const std::string& in, size_t& pos) { return strtoull(get(in, pos).c_str(), nullptr, 10); }
  std::string serialize() const {
    std::string o;
    put(o, states); put(o, transitions); put(o, traces); put(o, evaluations); put(o, (uint64_t)exhaustive);
    put(o, (uint64_t)outcomes.size()); for (std::set<std::string>::const_iterator i = outcomes.begin(); i != outcomes.end(); ++i) put(o, *i);
    put(o, (uint64_t)samples.size()); for (size_t i = 0; i < samples.size(); ++i) put(o, samples[i]);
    put(o, (uint64_t)caps.size()); for (size_t i = 0; i < caps.size(); ++i) put(o, caps[i]);
    put(o, (uint64_t)assumptions.size()); for (size_t i = 0; i < assumptions.size(); ++i) put(o, assumptions[i]);
    put(o, (uint64_t)scenarios.size()); for (size_t i = 0; i < scenarios.size(); ++i) put(o, scenarios[i]);
    put(o, (uint64_t)extra.size()); for (std::map<std::string, std::string>::const_iterator i = extra.begin(); i != extra.end(); ++i) { put(o, i->first); put(o, i->second); }
    put(o, (uint64_t)counters.size()); for (std::map<std::string, double>::const_iterator i = counters.begin(); i != counters.end(); ++i) { put(o, i->first); put(o, str(i->second)); }
    put(o, (uint64_t)violations.size());
    for (size_t i = 0; i < violations.size(); ++i) {
      const Violation& v = violations[i]; std::string cls;
      for (std::map<std::string, size_t>::const_iterator j = vio_index.begin(); j != vio_index.end(); ++j) if (j->second == i) cls = j->first;
      put(o, cls); put(o, v.what); put(o, v.scenario); put(o, v.history); put(o, v.count);
    }
    return o;
  }
  void merge_serialized(const std::string& in) {
    size_t p = 0;
    states += getn(in, p); transitions += getn(in, p); traces += getn(in, p); evaluations += getn(in, p); if (!getn(in, p)) exhaustive = false;
    uint64_t n = getn(in, p); for (uint64_t i = 0; i < n; ++i) outcomes.insert(get(in, p));
    n = getn(in, p); for (uint64_t i = 0; i < n; ++i) { std::string x = get(in, p); if (samples.size() < 16) samples.push_back(x); }
    n = getn(in, p); for (uint64_t i = 0; i < n; ++i) { std::string x = get(in, p); if (std::find(caps.begin(), caps.end(), x) == caps.end()) caps.push_back(x); }
    n = getn(in, p); for (uint64_t i = 0; i < n; ++i) { std::string x = get(in, p); if (std::find(assumptions.begin(), assumptions.end(), x) == assumptions.end()) assumptions.push_back(x); }
    n = getn(in, p); for (uint64_t i = 0; i < n; ++i) scenarios.push_back(get(in, p));
    n = getn(in, p); for (uint64_t i = 0; i < n; ++i) { std::string k = get(in, p); extra[k] = get(in, p); }
    n = getn(in, p); for (uint64_t i = 0; i < n; ++i) { std::string k = get(in, p); counters[k] += atof(get(in, p).c_str()); }
    n = getn(in, p);
    for (uint64_t i = 0; i < n; ++i) {
      std::string cls = get(in, p), what = get(in, p), sc = get(in, p), h = get(in, p); uint64_t c = getn(in, p);
      violation(cls, what, sc, h);
      violations[vio_index[cls]].count += c - 1;
    }
  }

  static std::string arr(const std::vector<std::string>& v) {
    std::string o = "[";
    for (size_t i = 0; i < v.size(); ++i) { if (i) o += ","; o += "\"" + json_escape(v[i]) + "\""; }
    return o + "]";
  }

  std::string to_json() const {
    std::ostringstream o;
    o << "{\"property\":\"" << property << "\",\"states\":" << states << ",\"transitions\":" << transitions
      << ",\"traces\":" << traces << ",\"evaluations\":" << evaluations
      << ",\"distinct_outcomes\":" << outcomes.size()
      << ",\"exhaustive\":" << (exhaustive ? "true" : "false")
      << ",\"wall_s\":" << (now_s() - t0)
      << ",\"samples\":" << arr(samples) << ",\"caps\":" << arr(caps) << ",\"assumptions\":" << arr(assumptions)
      << ",\"scenarios\":" << arr(scenarios);
    std::vector<std::string> oc; for (std::set<std::string>::const_iterator i = outcomes.begin(); i != outcomes.end() && oc.size() < 40; ++i) oc.push_back(*i);
    o << ",\"outcome_samples\":" << arr(oc);
    o << ",\"extra\":{";
    bool first = true;
    for (std::map<std::string, double>::const_iterator i = counters.begin(); i != counters.end(); ++i) {
      if (extra.count(i->first)) continue;
      if (!first) o << ","; first = false; o << "\"" << json_escape(i->first) << "\":" << str(i->second);
    }
    for (std::map<std::string, std::string>::const_iterator i = extra.begin(); i != extra.end(); ++i) {
      if (!first) o << ","; first = false; o << "\"" << json_escape(i->first) << "\":" << i->second;
    }
    o << "},\"violations\":[";
    for (size_t i = 0; i < violations.size(); ++i) {
      const Violation& v = violations[i];
      if (i) o << ",";
      o << "{\"key\":\"" << json_escape(v.key) << "\",\"what\":\"" << json_escape(v.what) << "\",\"scenario\":\""
        << json_escape(v.scenario) << "\",\"history\":\"" << json_escape(v.history) << "\",\"count\":" << v.count << "}";
    }
    o << "]}";
    return o.str();
  }
};

// ---------------------------------------------------------------------------------------------
// Crash journaling. The exploration runs in a forked child that writes the case it is about to
// execute into a shared journal. If the child dies, the parent turns the journal into a violation
// (key "crash|<case>") and restarts the child with that case in the skip set.
struct Journal {
  char* buf; size_t cap;
  Journal(): buf(nullptr), cap(1 << 18) {
    buf = static_cast<char*>(mmap(nullptr, cap, PROT_READ | PROT_WRITE, MAP_SHARED | MAP_ANONYMOUS, -1, 0));
    if (buf == MAP_FAILED) { perror("mmap"); exit(3); }
    buf[0] = 0;
  }
};
inline Journal& journal_obj() { static Journal j; return j; }
inline unsigned& case_timeout_s() { static unsigned t = 20; return t; }
inline std::set<std::string>& skip_cases() { static std::set<std::string> s; return s; }
inline volatile int& asan_errors() { static volatile int n = 0; return n; }

// Flat enumerations (independent cases in a fixed order, e.g. fault enumeration) may declare themselves resumable:
// the child checkpoints its report with the index of the next case about once per second; after a crash the parent
// restarts the task from the last checkpoint instead of from the beginning (cases before it are skipped, their
// results come from the checkpoint, so nothing is counted twice).
struct Resume { bool enabled = false; uint64_t index = 0; uint64_t resume_from = 0; Report* report = nullptr; std::string file; double last = 0; };
inline Resume& resume_state() { static Resume r; return r; }
inline void set_resumable(Report& rep) { resume_state().enabled = true; resume_state().report = &rep; }
void write_checkpoint();

// record the case about to run; returns false if it is in the skip set (known to crash)
inline bool journal(const std::string& scenario, const std::string& history) {
  Journal& j = journal_obj();
  Resume& rs = resume_state();
  if (rs.enabled) {
    const uint64_t idx = rs.index++;
    if (idx < rs.resume_from) return false;                       // already covered by the checkpoint
    if ((idx & 127) == 0 && now_s() - rs.last > 1.0) { rs.index = idx; write_checkpoint(); rs.index = idx + 1; rs.last = now_s(); }
  }
  std::string s = scenario + "\x1f" + history;
  if (skip_cases().count(s)) return false;
  size_t n = std::min(s.size(), j.cap - 1);
  memcpy(j.buf, s.data(), n); j.buf[n] = 0;
  static double last_arm = 0;   // re-arm at most every 0.2 s (alarm() is a syscall; the clock read is not)
  { const double t = now_s(); if (t - last_arm > 0.2) { alarm(case_timeout_s()); last_arm = t; } }
  return true;
}
inline void journal_clear() { journal_obj().buf[0] = 0; alarm(0); }

inline std::string read_file(const std::string& p) {
  FILE* f = fopen(p.c_str(), "rb"); if (!f) return std::string();
  std::string s; char b[65536]; size_t n;
  while ((n = fread(b, 1, sizeof b, f)) > 0) s.append(b, n);
  fclose(f); return s;
}
inline void write_file(const std::string& p, const std::string& s) {
  FILE* f = fopen(p.c_str(), "wb"); if (!f) { perror(p.c_str()); exit(3); }
  fwrite(s.data(), 1, s.size(), f); fclose(f);
}

inline void write_checkpoint() {
  Resume& rs = resume_state();
  if (!rs.enabled || rs.file.empty() || !rs.report) return;
  std::string tmp = rs.file + ".tmp";
  write_file(tmp, std::to_string(rs.index) + "\n" + rs.report->serialize());
  rename(tmp.c_str(), rs.file.c_str());
}

inline Config parse_args(int argc, char** argv) {
  Config c;
  if (const char* e = getenv("VERIF_TIER")) c.tier = e;
  if (const char* e = getenv("VERIF_SEED")) c.seed = strtoull(e, nullptr, 10);
  for (int i = 1; i < argc; ++i) {
    std::string a = argv[i];
    if (a == "--tier" && i + 1 < argc) c.tier = argv[++i];
    else if (a == "--seed" && i + 1 < argc) c.seed = strtoull(argv[++i], nullptr, 10);
    else if (a == "--out" && i + 1 < argc) c.out = argv[++i];
    else if (a == "--only" && i + 1 < argc) c.only = argv[++i];
    else if (a == "--budget" && i + 1 < argc) c.budget_s = atof(argv[++i]);
    else if (a == "--replay-scenario" && i + 1 < argc) c.replay_scenario = argv[++i];
    else if (a == "--replay-history" && i + 1 < argc) c.replay_history = argv[++i];
    else if (a == "--replay-key" && i + 1 < argc) c.replay_key = argv[++i];
  }
  if (const char* e = getenv("VERIF_BUDGET_S")) c.budget_s = atof(e);
  return c;
}

// Runs body(report) in a forked child with crash journaling; returns merged report JSON written to cfg.out.
// body must fill the report; the wrapper writes it out. Exit code: 0 (harness ran; violations are in the JSON).
inline int run_isolated(const Config& cfg, const std::string& property, const std::function<void(Report&)>& body) {
  journal_obj();
  std::vector<Violation> crashes;
  std::string tmp = cfg.out.empty() ? std::string("/dev/stdout") : cfg.out + ".child";
  double t0 = now_s();
  for (int attempt = 0; attempt < 40; ++attempt) {
    fflush(stdout); fflush(stderr);
    pid_t pid = fork();
    if (pid < 0) { perror("fork"); return 3; }
    if (pid == 0) {
      Report r; r.property = property; r.t0 = t0; r.deadline = t0 + cfg.budget_s;
      try { body(r); }
      catch (const std::exception& e) { fprintf(stderr, "HARNESS-ERROR uncaught exception in harness body: %s\n", e.what()); _exit(4); }
      journal_clear();
      for (size_t i = 0; i < crashes.size(); ++i) r.violation(crashes[i].key, crashes[i].what, crashes[i].scenario, crashes[i].history);
      write_file(tmp, r.to_json());
      fflush(stdout); fflush(stderr);
      _exit(0);
    }
    int st = 0; waitpid(pid, &st, 0);
    if (WIFEXITED(st) && WEXITSTATUS(st) == 0) {
      if (!cfg.out.empty()) { rename(tmp.c_str(), cfg.out.c_str()); }
      return 0;
    }
    std::string j = journal_obj().buf;
    if (WIFEXITED(st) && WEXITSTATUS(st) == 4) return 4;
    if (j.empty()) {
      fprintf(stderr, "HARNESS-ERROR child died (status %d) outside any journalled case\n", st);
      return 3;
    }
    size_t sep = j.find('\x1f');
    Violation v; v.scenario = j.substr(0, sep); v.history = sep == std::string::npos ? "" : j.substr(sep + 1);
    std::string how = WIFSIGNALED(st) ? (WTERMSIG(st) == SIGALRM ? "hang" : "signal" + std::to_string(WTERMSIG(st))) : "exit" + std::to_string(WEXITSTATUS(st));
    v.key = property + "|" + v.scenario + "|crash-" + how; // class; the witness history is appended by Report::violation
    v.what = "process died (" + how + ") while executing this case";
    crashes.push_back(v);
    skip_cases().insert(j);
    fprintf(stderr, "[journal] child died (%s) in case %s / %s; restarting with case skipped\n", how.c_str(), v.scenario.c_str(), v.history.c_str());
    journal_obj().buf[0] = 0;
  }
  fprintf(stderr, "HARNESS-ERROR too many crashing cases\n");
  // still write what we know
  Report r; r.property = property; r.t0 = t0; r.exhaustive = false; r.states = 1; r.transitions = 1;
  for (size_t i = 0; i < crashes.size(); ++i) r.violation(crashes[i].key, crashes[i].what, crashes[i].scenario, crashes[i].history);
  r.cap("more than 40 crashing cases; exploration abandoned");
  if (!cfg.out.empty()) write_file(cfg.out, r.to_json());
  return 0;
}

// ---------------------------------------------------------------------------------------------
// Parallel task runner: each task (usually one scenario) explores in its own forked child with its own
// crash journal; the parent merges the task reports in task order (deterministic output).
struct Task { std::string name; std::function<void(Report&)> fn; };

inline int run_tasks(const Config& cfg, const std::string& property, std::vector<Task>& tasks, int jobs = 16) {
  if (const char* e = getenv("VERIF_JOBS")) jobs = atoi(e);
  if (jobs < 1) jobs = 1;
  const size_t SLOT = 1 << 18;
  char* slots = static_cast<char*>(mmap(nullptr, SLOT * (size_t)jobs, PROT_READ | PROT_WRITE, MAP_SHARED | MAP_ANONYMOUS, -1, 0));
  if (slots == MAP_FAILED) { perror("mmap"); return 3; }
  double t0 = now_s();
  struct Run { pid_t pid; size_t task; int slot; };
  std::vector<Run> running; std::vector<int> free_slots; for (int i = jobs - 1; i >= 0; --i) free_slots.push_back(i);
  std::vector<std::set<std::string> > skips(tasks.size());
  std::vector<std::vector<Violation> > crashes(tasks.size());
  std::vector<std::string> results(tasks.size()); std::vector<int> attempts(tasks.size(), 0);
  std::vector<uint64_t> resume_from(tasks.size(), 0); std::vector<std::string> ckpt_reports(tasks.size());
  std::vector<size_t> queue; 
  for (size_t i = 0; i < tasks.size(); ++i) {
    if (!cfg.only.empty() && tasks[i].name.find(cfg.only) == std::string::npos) continue;
    queue.push_back(i);
  }
  std::reverse(queue.begin(), queue.end());
  std::string base = cfg.out.empty() ? std::string("/tmp/mc-") + std::to_string(getpid()) : cfg.out;
  int hard_error = 0;
  while (!queue.empty() || !running.empty()) {
    while (!queue.empty() && !free_slots.empty()) {
      size_t ti = queue.back(); queue.pop_back(); int slot = free_slots.back(); free_slots.pop_back();
      fflush(stdout); fflush(stderr);
      slots[SLOT * (size_t)slot] = 0;
      pid_t pid = fork();
      if (pid < 0) { perror("fork"); return 3; }
      if (pid == 0) {
        journal_obj().buf = slots + SLOT * (size_t)slot; journal_obj().cap = SLOT;
        skip_cases() = skips[ti];
        resume_state() = Resume(); resume_state().file = base + ".ckpt" + std::to_string(ti); resume_state().resume_from = resume_from[ti];
        Report r; r.property = property; r.t0 = t0; r.deadline = t0 + cfg.budget_s;
        if (!ckpt_reports[ti].empty()) r.merge_serialized(ckpt_reports[ti]);   // what the previous attempt had established up to its checkpoint
        try { tasks[ti].fn(r); }
        catch (const std::exception& e) { fprintf(stderr, "HARNESS-ERROR uncaught exception in task %s: %s\n", tasks[ti].name.c_str(), e.what()); _exit(4); }
        journal_clear();
        for (size_t i = 0; i < crashes[ti].size(); ++i) r.violation(crashes[ti][i].key, crashes[ti][i].what, crashes[ti][i].scenario, crashes[ti][i].history);
        write_file(base + ".task" + std::to_string(ti), r.serialize());
        fflush(stdout); fflush(stderr);
        _exit(0);
      }
      Run r; r.pid = pid; r.task = ti; r.slot = slot; running.push_back(r);
    }
    int st = 0; pid_t done = wait(&st);
    if (done < 0) break;
    for (size_t i = 0; i < running.size(); ++i) if (running[i].pid == done) {
      Run r = running[i]; running.erase(running.begin() + i);
      size_t ti = r.task;
      if (WIFEXITED(st) && WEXITSTATUS(st) == 0) {
        results[ti] = read_file(base + ".task" + std::to_string(ti)); unlink((base + ".task" + std::to_string(ti)).c_str());
        unlink((base + ".ckpt" + std::to_string(ti)).c_str());
      } else {
        std::string j = slots + SLOT * (size_t)r.slot;
        if ((WIFEXITED(st) && WEXITSTATUS(st) == 4) || j.empty()) {
          fprintf(stderr, "HARNESS-ERROR task %s died (status %d) outside any journalled case\n", tasks[ti].name.c_str(), st); hard_error = 3;
        } else {
          size_t sep = j.find('\x1f');
          Violation v; v.scenario = j.substr(0, sep); v.history = sep == std::string::npos ? "" : j.substr(sep + 1);
          std::string how = WIFSIGNALED(st) ? (WTERMSIG(st) == SIGALRM ? "hang" : "signal" + std::to_string(WTERMSIG(st))) : "exit" + std::to_string(WEXITSTATUS(st));
          v.key = property + "|" + v.scenario + "|crash-" + how;
          v.what = "process died (" + how + ") while executing this case";
          crashes[ti].push_back(v); skips[ti].insert(j);
          { // resumable task: pick up its last checkpoint
            std::string ck = read_file(base + ".ckpt" + std::to_string(ti));
            size_t nl = ck.find('\n');
            if (nl != std::string::npos) { resume_from[ti] = strtoull(ck.c_str(), nullptr, 10); ckpt_reports[ti] = ck.substr(nl + 1); }
          }
          fprintf(stderr, "[journal] task %s died (%s) in case %s / %s; restarting with case skipped\n", tasks[ti].name.c_str(), how.c_str(), v.scenario.c_str(), v.history.c_str());
          if (++attempts[ti] < (ckpt_reports[ti].empty() ? 25 : 400)) queue.push_back(ti);
          else { // give up on this task but keep its crash findings
            Report rr; rr.property = property; rr.cap("task " + tasks[ti].name + ": more than 25 crashing cases; exploration abandoned");
            for (size_t k = 0; k < crashes[ti].size(); ++k) rr.violation(crashes[ti][k].key, crashes[ti][k].what, crashes[ti][k].scenario, crashes[ti][k].history);
            results[ti] = rr.serialize();
          }
        }
      }
      free_slots.push_back(r.slot);
      break;
    }
  }
  if (hard_error) return hard_error;
  Report all; all.property = property; all.t0 = t0;
  for (size_t i = 0; i < tasks.size(); ++i) if (!results[i].empty()) all.merge_serialized(results[i]);
  if (!cfg.out.empty()) write_file(cfg.out, all.to_json()); else printf("%s\n", all.to_json().c_str());
  munmap(slots, SLOT * (size_t)jobs);
  return 0;
}

// Check context handed to oracles: collects failures of the case being checked.
struct Ctx {
  Report& rep; std::string scenario; std::string history;
  std::vector<std::pair<std::string, std::string> > fails;
  Ctx(Report& r, const std::string& sc, const std::string& h): rep(r), scenario(sc), history(h) {}
  void fail(const std::string& check, const std::string& msg) { fails.push_back(std::make_pair(check, msg)); }
  template<typename A, typename B> bool eq(const std::string& check, const A& a, const B& b) {
    if (a == b) return true; fail(check, "got " + str(a) + " expected " + str(b)); return false;
  }
  bool ok(const std::string& check, bool cond, const std::string& msg = "") { if (!cond) fail(check, msg); return cond; }
  bool near(const std::string& check, double a, double b, double rel = 1e-9, double abs = 1e-12) {
    double d = a > b ? a - b : b - a; double m = std::max(a < 0 ? -a : a, b < 0 ? -b : b);
    if (d <= abs || d <= rel * m) return true;
    fail(check, "got " + str(a) + " expected " + str(b)); return false;
  }
};

// oracle evaluation: an exception escaping the oracle means a library query threw where the statement requires an answer
template<class Sys, class State>
void safe_check(Sys& sys, State& st, Ctx& ctx) {
  try { sys.check(st, ctx); }
  catch (const std::exception& e) { ctx.fail("unexpected-exception-in-query", std::string("a query threw: ") + e.what()); }
}

} // namespace mc

// ASan integration: recoverable errors are counted and attributed to the running case.
extern "C" {
#if defined(__has_feature)
#  if __has_feature(address_sanitizer)
#    define MC_ASAN 1
#  endif
#endif
#if defined(__SANITIZE_ADDRESS__)
#  define MC_ASAN 1
#endif
#if defined(MC_ASAN) && defined(MC_MAIN)
__attribute__((used, visibility("default"))) const char* __asan_default_options() {
  return "malloc_context_size=0:halt_on_error=0:detect_leaks=0:allocator_may_return_null=1:max_allocation_size_mb=2048:abort_on_error=1:print_summary=1:handle_abort=0:detect_stack_use_after_return=0";
}
__attribute__((used, visibility("default"))) void __asan_on_error() { mc::asan_errors()++; }
#endif
}

#endif
