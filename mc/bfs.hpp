// mc/bfs.hpp -- E1/E5: explicit-state breadth-first search over the product (implementation x model).
// A state is the history that reaches it; it is re-created by replaying the history on fresh objects
// (copy constructors are never trusted). Operations that draw from the library's RNG are expanded
// into one transition per outcome (mc/choice.hpp). Canon-on-replay is asserted for every expansion.
//
// System concept:
//   struct Sys {
//     typedef ... State;                       // implementation objects + reference model
//     std::string name() const;
//     State* make();                           // fresh initial state (heap)
//     size_t nops() const;  std::string opname(size_t) const;
//     bool apply(State&, size_t op, mc::Ctx* ctx);   // false = not enabled here; ctx==nullptr while replaying a prefix
//     std::string canon(State&);               // every field the future can depend on (over-fine is fine)
//     void check(State&, mc::Ctx&);            // oracle, evaluated in every new state
//   };
#ifndef MC_BFS_HPP
#define MC_BFS_HPP

#include "core.hpp"
#include "choice.hpp"
#include <unordered_set>
#include <memory>
#include <deque>

namespace mc {

struct Step { uint16_t op; std::vector<uint64_t> tape; };
typedef std::vector<Step> Hist;

struct BfsLimits {
  int max_depth = 1000;
  size_t max_states = 2000000;
  unsigned grid = 256;        // raw-draw probe grid
  bool check_every_transition = false;
};

struct H128 { uint64_t a, b; bool operator==(const H128& o) const { return a == o.a && b == o.b; } };
struct H128Hash { size_t operator()(const H128& h) const { return (size_t)(h.a ^ (h.b * 0x9e3779b97f4a7c15ULL)); } };
inline H128 h128(const std::string& s) { H128 h; h.a = fnv1a(s); h.b = fnv1a(s, 0x84222325cbf29ce4ULL) ^ s.size(); return h; }

template<class Sys>
struct Bfs {
  typedef typename Sys::State State;
  struct Node { uint32_t parent; uint16_t op; int32_t tape; uint16_t depth; H128 h; };

  Sys& sys; Report& rep; BfsLimits lim;
  std::vector<Node> nodes; std::vector<std::vector<uint64_t> > tapes;
  std::unordered_set<H128, H128Hash> seen;
  uint64_t transitions = 0, replays = 0, disabled = 0; int max_depth_seen = 0; bool hit_cap = false, hit_depth = false, hit_deadline = false;
  ChoiceStats cst;

  Bfs(Sys& s, Report& r, const BfsLimits& l): sys(s), rep(r), lim(l) {}

  Hist hist_of(uint32_t n) const {
    Hist h;
    while (n != 0) { Step st; st.op = nodes[n].op; if (nodes[n].tape >= 0) st.tape = tapes[nodes[n].tape]; h.push_back(st); n = nodes[n].parent; }
    std::reverse(h.begin(), h.end());
    return h;
  }
  std::string hist_str(const Hist& h) const {
    std::string s;
    for (size_t i = 0; i < h.size(); ++i) { if (i) s += ";"; s += sys.opname(h[i].op); if (!h[i].tape.empty()) s += "~" + tape_str(h[i].tape); }
    return s;
  }
  bool parse_hist(const std::string& s, Hist& h) const {
    std::map<std::string, size_t> idx; for (size_t i = 0; i < sys.nops(); ++i) idx[sys.opname(i)] = i;
    size_t i = 0;
    while (i < s.size()) {
      size_t e = s.find(';', i); if (e == std::string::npos) e = s.size();
      std::string tok = s.substr(i, e - i); std::string tp; size_t t = tok.find('~');
      if (t != std::string::npos) { tp = tok.substr(t + 1); tok = tok.substr(0, t); }
      if (!idx.count(tok)) return false;
      Step st; st.op = (uint16_t)idx[tok]; st.tape = tape_parse(tp); h.push_back(st);
      i = e + 1;
    }
    return true;
  }

  // replay a history on a fresh state; the last step is applied with ctx (if given)
  std::unique_ptr<State> replay(const Hist& h, Ctx* last_ctx, bool* enabled, Tape* last_tape = nullptr, uint64_t fill = 0x8000000000000000ULL) {
    std::unique_ptr<State> s(sys.make()); replays++;
    if (enabled) *enabled = true;
    for (size_t i = 0; i < h.size(); ++i) {
      Tape t; t.v = h[i].tape; t.set_fill(fill);
      bool ok;
      try { TapeScope sc(t); ok = sys.apply(*s, h[i].op, i + 1 == h.size() ? last_ctx : nullptr); }
      catch (const std::exception& e) {
        // the system is expected to catch the exceptions its operations may legally throw; anything else is a finding
        if (i + 1 == h.size() && last_ctx) { last_ctx->fail("unexpected-exception", std::string("operation threw: ") + e.what()); ok = false; }
        else throw;
      }
      if (i + 1 == h.size() && last_tape) *last_tape = t;
      if (!ok) { if (enabled) *enabled = false; if (i + 1 != h.size()) { fprintf(stderr, "HARNESS-ERROR: op disabled while replaying prefix (%s step %zu)\n", sys.name().c_str(), i); abort(); } }
    }
    return s;
  }

  void add_state(uint32_t parent, uint16_t op, const std::vector<uint64_t>& tape, const std::string& canon, uint16_t depth, std::deque<uint32_t>& frontier) {
    H128 h = h128(canon);
    if (!seen.insert(h).second) return;
    Node n; n.parent = parent; n.op = op; n.depth = depth; n.h = h; n.tape = -1;
    if (!tape.empty()) { n.tape = (int32_t)tapes.size(); tapes.push_back(tape); }
    nodes.push_back(n);
    frontier.push_back((uint32_t)nodes.size() - 1);
    if (depth > max_depth_seen) max_depth_seen = depth;
  }

  void run() {
    double t_start = now_s();
    std::deque<uint32_t> frontier;
    nodes.clear(); tapes.clear(); seen.clear();
    { // root
      Node root; root.parent = 0; root.op = 0; root.tape = -1; root.depth = 0;
      std::string sc = sys.name();
      if (!journal(sc, "")) return;
      std::unique_ptr<State> s(sys.make());
      std::string c = sys.canon(*s);
      root.h = h128(c); seen.insert(root.h); nodes.push_back(root); frontier.push_back(0);
      Ctx ctx(rep, sc, ""); int a0 = asan_errors();
      safe_check(sys, *s, ctx);
      if (asan_errors() != a0) ctx.fail("asan", "AddressSanitizer report while checking the initial state");
      rep.flush_ctx_fails(ctx.fails, sc, "");
    }
    const std::string sc = sys.name();
    while (!frontier.empty()) {
      if (rep.past_deadline()) { hit_deadline = true; break; }
      uint32_t ni = frontier.front(); frontier.pop_front();
      uint16_t depth = nodes[ni].depth;
      if ((int)depth >= lim.max_depth) { hit_depth = true; continue; }
      Hist base = hist_of(ni);
      { // canon-on-replay
        std::unique_ptr<State> s = replay(base, nullptr, nullptr);
        H128 h = h128(sys.canon(*s));
        if (!(h == nodes[ni].h)) { fprintf(stderr, "HARNESS-ERROR: canon-on-replay mismatch in %s at %s (un-captured nondeterminism)\n", sc.c_str(), hist_str(base).c_str()); abort(); }
      }
      for (size_t op = 0; op < sys.nops(); ++op) {
        Hist h = base; Step st; st.op = (uint16_t)op; h.push_back(st);
        std::string hs0 = hist_str(h);
        if (!journal(sc, hs0)) continue;
        // first run with an empty tape to learn whether the op draws at all
        bool en = true; Tape t0; int a0 = asan_errors();
        Ctx ctx(rep, sc, hs0);
        std::unique_ptr<State> s = replay(h, &ctx, &en, &t0);
        if (!en) { rep.flush_ctx_fails(ctx.fails, sc, hs0); disabled++; continue; }   // an unexpected exception is recorded in ctx and must not be lost
        if (t0.kinds.empty()) {
          transitions++;
          std::string c = sys.canon(*s);
          H128 hh = h128(c);
          bool isnew = !seen.count(hh);
          if (isnew || lim.check_every_transition) safe_check(sys, *s, ctx);
          if (asan_errors() != a0) ctx.fail("asan", "AddressSanitizer report during this operation");
          rep.flush_ctx_fails(ctx.fails, sc, hs0);
          if (isnew) { if (nodes.size() >= lim.max_states) { hit_cap = true; continue; } add_state(ni, (uint16_t)op, st.tape, c, depth + 1, frontier); }
          continue;
        }
        // the op draws: enumerate every outcome
        s.reset();
        Bfs* self = this; Hist* hp = &h;
        RunFn rf = [self, hp](const std::vector<uint64_t>& tape, uint64_t fill) -> RunResult {
          hp->back().tape = tape; Tape t; bool e2 = true;
          RunResult r;
          try { std::unique_ptr<State> s2 = self->replay(*hp, nullptr, &e2, &t, fill); r.canon = self->sys.canon(*s2); }
          catch (const std::exception& e) { r.failed = true; r.canon = e.what(); }
          r.kinds = t.kinds; r.seg = t.seg;
          return r;
        };
        bool capped = false;
        std::vector<Outcome> outs = enumerate_outcomes(rf, lim.grid, cst, 1u << 16, &capped);
        if (capped) rep.cap("choice tree of one operation exceeded 65536 leaves in " + sc);
        double mass = 0;
        for (size_t k = 0; k < outs.size(); ++k) {
          mass += outs[k].prob; transitions++;
          h.back().tape = outs[k].tape;
          std::string hs = hist_str(h);
          if (!journal(sc, hs)) continue;
          Ctx c2(rep, sc, hs); int a1 = asan_errors(); bool e3 = true;
          std::unique_ptr<State> s3 = replay(h, &c2, &e3);
          if (!e3) { rep.flush_ctx_fails(c2.fails, sc, hs); continue; }
          std::string c = sys.canon(*s3);
          H128 hh = h128(c);
          bool isnew = !seen.count(hh);
          if (isnew || lim.check_every_transition) safe_check(sys, *s3, c2);
          if (asan_errors() != a1) c2.fail("asan", "AddressSanitizer report during this operation");
          if (outs[k].canon.compare(0, 7, "FAILED:") == 0) c2.fail("draw-runaway", outs[k].canon);
          rep.flush_ctx_fails(c2.fails, sc, hs);
          if (isnew) { if (nodes.size() >= lim.max_states) { hit_cap = true; continue; } add_state(ni, (uint16_t)op, outs[k].tape, c, depth + 1, frontier); }
        }
        if (std::fabs(mass + cst.sliver_mass * 0 - 1.0) > 1e-9 && !capped) {
          Ctx c3(rep, sc, hs0); c3.fail("choice-mass", "outcome probabilities of one operation sum to " + str(mass));
          // a mass defect is a property of the harness seam, not of the library: report loudly as harness error
          fprintf(stderr, "HARNESS-ERROR: choice mass %.15g != 1 in %s at %s\n", mass, sc.c_str(), hs0.c_str()); abort();
        }
      }
    }
    journal_clear();
    rep.states += nodes.size(); rep.transitions += transitions; rep.traces += nodes.size();
    if (hit_cap) rep.cap("state cap " + std::to_string(lim.max_states) + " hit in " + sc);
    if (hit_depth) rep.bound("depth bound " + std::to_string(lim.max_depth) + " reached in " + sc + " (all states up to that depth explored)");
    if (hit_deadline) rep.cap("global deadline reached in " + sc + "; depth fully covered: " + std::to_string(frontier.empty() ? max_depth_seen : (int)nodes[frontier.front()].depth));
    char b[256]; snprintf(b, sizeof b, "%s: states=%zu transitions=%llu max_depth=%d fixpoint=%s disabled=%llu replays=%llu %.1fs",
      sc.c_str(), nodes.size(), (unsigned long long)transitions, max_depth_seen, (!hit_cap && !hit_depth && !hit_deadline) ? "yes" : "no",
      (unsigned long long)disabled, (unsigned long long)replays, now_s() - t_start);
    rep.scenarios.push_back(b);
    if (nodes.size() > 3) { rep.sample(sc + ": " + hist_str(hist_of((uint32_t)nodes.size() - 1))); }
  }

  // plain replay of a recorded history without the explorer; returns the failures observed at the last step
  std::vector<std::pair<std::string, std::string> > replay_history(const std::string& hs) {
    Hist h; std::vector<std::pair<std::string, std::string> > out;
    if (!parse_hist(hs, h)) { out.push_back(std::make_pair("replay-parse", "cannot parse history")); return out; }
    Ctx ctx(rep, sys.name(), hs); bool en = true; int a0 = asan_errors();
    std::unique_ptr<State> s = replay(h, &ctx, &en);
    (void)sys.canon(*s);   // mirror the exploration: canon is evaluated before the oracle
    safe_check(sys, *s, ctx);
    if (asan_errors() != a0) ctx.fail("asan", "AddressSanitizer report during replay");
    return ctx.fails;
  }
};

// convenience: run one system, or replay if the config asks for this scenario
template<class Sys>
void explore(Sys& sys, Report& rep, const Config& cfg, const BfsLimits& lim) {
  if (!cfg.only.empty() && sys.name().find(cfg.only) == std::string::npos) return;
  if (!cfg.replay_scenario.empty()) {
    if (cfg.replay_scenario != sys.name() || cfg.replay_history.compare(0, 8, "default[") == 0) return;
    Bfs<Sys> b(sys, rep, lim);
    std::vector<std::pair<std::string, std::string> > f = b.replay_history(cfg.replay_history);
    rep.states += 1; rep.transitions += 1;
    rep.flush_ctx_fails(f, sys.name(), cfg.replay_history);
    return;
  }
  Bfs<Sys> b(sys, rep, lim);
  b.run();
}

} // namespace mc
#endif
