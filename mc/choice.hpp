// mc/choice.hpp -- E3: ownership of the library's internal randomness.
// A "tape" supplies the outcomes of all draws (fair bits and raw 64-bit values) of one run.
// enumerate_outcomes() explores the complete choice tree of one operation: bits branch 2-way with
// probability 1/2; raw draws are continuous choice points whose decision intervals are discovered
// by grid + bisection on a signature (control-flow path to the next draw when compiled with
// -fsanitize-coverage=trace-pc-guard, plus the canonical state at the end of the operation).
#ifndef MC_CHOICE_HPP
#define MC_CHOICE_HPP

#include "core.hpp"
#include <common_defs.hpp>
#include <cmath>

namespace mc {

struct Tape {
  std::vector<uint64_t> v;          // supplied outcomes
  std::vector<uint8_t> kinds;       // kind of each draw consumed: 0 bit, 1 raw
  std::vector<uint64_t> seg;        // path hash of the code segment following each draw
  size_t pos = 0;
  uint64_t raw_fill = 0x8000000000000000ULL;
  uint64_t bit_fill = 0;
  size_t max_draws = 100000;
  bool runaway = false;
  uint64_t fill_seed = 0;           // != 0: draws beyond the supplied outcomes come from a deterministic pseudo-random sequence
  // fill code (the `fill` argument of a RunFn): bits 2..63 = raw fill value, bit 0 = bit fill, bit 1 = pseudo-random continuation seeded by the code
  void set_fill(uint64_t code) { raw_fill = code & ~(uint64_t)3; bit_fill = code & 1; fill_seed = (code & 2) ? code : 0; if (!(code & 2) && raw_fill == 0) raw_fill = 4; }
  uint64_t fill_value(size_t p) const { uint64_t x = fill_seed + 0x9e3779b97f4a7c15ULL * (uint64_t)(p + 1); x ^= x >> 30; x *= 0xbf58476d1ce4e5b9ULL; x ^= x >> 27; x *= 0x94d049bb133111ebULL; x ^= x >> 31; return x; }
};

inline Tape*& cur_tape() { static Tape* t = nullptr; return t; }
// plain globals (each harness is a single TU): the coverage callback must not call instrumented functions
static uint64_t g_cov_hash = 0;
static bool g_cov_on = false;
static bool g_cov_present = false;

inline void seg_mark(Tape* t) { if (!t->kinds.empty()) t->seg.push_back(g_cov_hash); g_cov_hash = 1469598103934665603ULL; }

inline uint32_t bit_source() {
  Tape* t = cur_tape();
  seg_mark(t);
  uint64_t r = t->pos < t->v.size() ? t->v[t->pos] : (t->fill_seed ? (t->fill_value(t->pos) >> 63) : t->bit_fill);
  t->pos++; t->kinds.push_back(0);
  return (uint32_t)(r & 1);
}
inline uint64_t raw_source() {
  Tape* t = cur_tape();
  seg_mark(t);
  uint64_t r = t->pos < t->v.size() ? t->v[t->pos] : (t->fill_seed ? (t->fill_value(t->pos) | 1) : t->raw_fill);
  t->pos++; t->kinds.push_back(1);
  if (t->pos > t->max_draws) { t->runaway = true; throw std::runtime_error("mc: runaway draw loop"); }
  return r;
}

// RAII: install a tape for the duration of a library operation
struct TapeScope {
  Tape* prev; bool prev_on; uint64_t prev_hash;
  explicit TapeScope(Tape& t) {
    prev = cur_tape(); cur_tape() = &t; prev_on = g_cov_on; prev_hash = g_cov_hash;
    datasketches::random_utils::verif_bit_source() = &bit_source;
    datasketches::random_utils::verif_raw_source() = &raw_source;
    g_cov_hash = 1469598103934665603ULL; g_cov_on = true;
  }
  ~TapeScope() {
    Tape* t = cur_tape();
    if (!t->kinds.empty()) t->seg.push_back(g_cov_hash);
    g_cov_on = prev_on; g_cov_hash = prev_hash;   // nested scopes (operands built under a fixed schedule) do not disturb the outer one
    cur_tape() = prev;
    if (!prev) {
      datasketches::random_utils::verif_bit_source() = &unexpected_bit;
      datasketches::random_utils::verif_raw_source() = &unexpected_raw;
    }
  }
  // outside any scope a draw is an un-owned source of nondeterminism: hard error, not a violation
  static uint32_t unexpected_bit() { fprintf(stderr, "HARNESS-ERROR: random_bit drawn outside a TapeScope\n"); abort(); }
  static uint64_t unexpected_raw() { fprintf(stderr, "HARNESS-ERROR: random_utils::rand drawn outside a TapeScope\n"); abort(); }
};
inline void forbid_unowned_draws() {
  datasketches::random_utils::verif_bit_source() = &TapeScope::unexpected_bit;
  datasketches::random_utils::verif_raw_source() = &TapeScope::unexpected_raw;
}

inline uint64_t raw_from_unit(double u) { // u in [0,1): raw value whose generate_canonical image is u
  if (u <= 0) return 0; if (u >= 1) return UINT64_MAX;
  long double x = (long double)u * 18446744073709551616.0L;
  if (x >= 18446744073709551615.0L) return UINT64_MAX;
  return (uint64_t)x;
}
inline double unit_from_raw(uint64_t r) { return (double)((long double)r / 18446744073709551616.0L); }

struct RunResult {
  std::vector<uint8_t> kinds;
  std::vector<uint64_t> seg;
  std::string canon;     // canonical state after the operation (and anything else the future can observe)
  bool failed = false;   // runaway or similar
};

struct Outcome {
  std::vector<uint64_t> tape;
  double prob;
  std::string canon;
};

struct ChoiceStats { uint64_t runs = 0, leaves = 0, raw_points = 0, bit_points = 0, max_draws = 0, slivers = 0; double sliver_mass = 0; uint64_t max_intervals = 0; };

// run(tape, fill) executes the operation from the fixed pre-state with the given tape prefix (fill for later raws)
typedef std::function<RunResult(const std::vector<uint64_t>&, uint64_t)> RunFn;

struct ChoiceExplorer {
  RunFn run; unsigned grid; ChoiceStats* st; size_t max_leaves;
  std::vector<Outcome> out; bool capped = false;

  std::string sig_at(const RunResult& r, size_t j) const {
    // signature of the behaviour that follows draw j
    std::string s;
    if (j < r.seg.size()) s += hex64(r.seg[j]);
    if (r.kinds.size() == j + 1) s += "|end|" + r.canon;            // last draw: the end state is exact
    else if (r.kinds.size() > j + 1) s += "|next" + std::to_string((int)r.kinds[j + 1]);
    else s += "|short";
    return s;
  }
  // Signature of choosing value v at draw position j: control-flow path to the next draw (when compiled with coverage)
  // plus the end states under a family of continuations, because the value may flow into data that only some later
  // outcomes expose: if the remaining draws are few bits, ALL bit continuations are enumerated (exact); otherwise a fixed
  // set of constant and pseudo-random continuations is used (stated assumption: a difference shows under one of them).
  std::string probe(std::vector<uint64_t>& pre, uint64_t v, size_t j) {
    pre.push_back(v);
    std::string s;
    RunResult r = run(pre, 0x8000000000000000ULL); st->runs++;
    s = sig_at(r, j);
    if (r.kinds.size() > j + 1) {
      s += "|" + r.canon + "|" + std::to_string(r.kinds.size());
      size_t rest = r.kinds.size() - (j + 1); bool all_bits = true;
      for (size_t q = j + 1; q < r.kinds.size(); ++q) if (r.kinds[q] != 0) all_bits = false;
      if (all_bits && rest <= 8) {
        std::vector<uint64_t> t = pre; t.resize(pre.size() + rest, 0);
        for (uint32_t m = 1; m < (1u << rest); ++m) {
          for (size_t q = 0; q < rest; ++q) t[pre.size() + q] = (m >> q) & 1;
          RunResult rr = run(t, 0x8000000000000000ULL); st->runs++;
          s += "|" + rr.canon + "," + std::to_string(rr.kinds.size());
        }
      } else {
        const uint64_t fills[] = { 0x8000000000000000ULL | 1, raw_from_unit(0.07) & ~(uint64_t)3, (raw_from_unit(0.07) & ~(uint64_t)3) | 1,
                                   raw_from_unit(0.93) & ~(uint64_t)3, (raw_from_unit(0.93) & ~(uint64_t)3) | 1,
                                   0x1234567890abcde2ULL, 0x0fedcba987654322ULL, 0x5555aaaa33336666ULL | 2, 0x7777111199992222ULL | 2 };
        for (size_t f = 0; f < sizeof(fills) / sizeof(fills[0]); ++f) {
          RunResult rr = run(pre, fills[f]); st->runs++;
          s += "|" + rr.canon + "," + std::to_string(rr.kinds.size());
        }
      }
    }
    pre.pop_back();
    return s;
  }
  void rec(std::vector<uint64_t>& pre, double prob) {
    if (capped) return;
    RunResult r = run(pre, 0x8000000000000000ULL); st->runs++;
    size_t j = pre.size();
    if (r.kinds.size() > st->max_draws) st->max_draws = r.kinds.size();
    if (r.failed) { Outcome o; o.tape = pre; o.prob = prob; o.canon = "FAILED:" + r.canon; out.push_back(o); return; }
    if (r.kinds.size() <= j) {
      Outcome o; o.tape = pre; o.prob = prob; o.canon = r.canon; out.push_back(o); st->leaves++;
      if (out.size() > max_leaves) capped = true;
      return;
    }
    if (r.kinds[j] == 0) {
      st->bit_points++;
      pre.push_back(0); rec(pre, prob / 2); pre.pop_back();
      pre.push_back(1); rec(pre, prob / 2); pre.pop_back();
      return;
    }
    st->raw_points++;
    // grid probe
    std::vector<double> us(grid); std::vector<std::string> sg(grid);
    for (unsigned i = 0; i < grid; ++i) { us[i] = (i + 0.5) / grid; sg[i] = probe(pre, raw_from_unit(us[i]), j); }
    // breakpoints by bisection
    struct Iv { double lo, hi; std::string sig; };
    std::vector<Iv> ivs;
    double lo = 0; std::string cur = sg[0];
    for (unsigned i = 0; i + 1 < grid; ++i) {
      if (sg[i] == sg[i + 1]) continue;
      // possibly several breakpoints between us[i] and us[i+1]; find them left to right
      double a = us[i]; std::string sa = sg[i]; double bEnd = us[i + 1]; std::string sEnd = sg[i + 1];
      while (sa != sEnd) {
        double x = a, y = bEnd; std::string sy = sEnd;
        for (int it = 0; it < 60 && (y - x) > 1e-15; ++it) {
          double m = 0.5 * (x + y);
          std::string sm = probe(pre, raw_from_unit(m), j);
          if (sm == sa) x = m; else { y = m; sy = sm; }
        }
        Iv iv; iv.lo = lo; iv.hi = y; iv.sig = sa; ivs.push_back(iv);
        lo = y; a = y; sa = sy;
      }
      cur = sEnd;
    }
    { Iv iv; iv.lo = lo; iv.hi = 1.0; iv.sig = cur; ivs.push_back(iv); }
    if (ivs.size() > st->max_intervals) st->max_intervals = ivs.size();
    bool last = (r.kinds.size() == j + 1);
    // merge leaves with equal end state (exact); keep inner intervals apart
    std::map<std::string, size_t> seen;
    std::vector<Iv> use;
    for (size_t i = 0; i < ivs.size(); ++i) {
      double w = ivs[i].hi - ivs[i].lo;
      if (w < 1e-13) { st->slivers++; st->sliver_mass += w * prob; continue; }
      if (last) {
        std::map<std::string, size_t>::iterator f = seen.find(ivs[i].sig);
        if (f != seen.end()) { // fold mass into the first interval with this end state
          Iv& t = use[f->second]; double mid = 0.5 * (t.lo + t.hi); double tw = t.hi - t.lo + w;
          t.lo = mid - tw / 2; t.hi = mid + tw / 2; // keeps the representative, adds the mass
          continue;
        }
        seen[ivs[i].sig] = use.size();
      }
      use.push_back(ivs[i]);
    }
    for (size_t i = 0; i < use.size(); ++i) {
      double w = use[i].hi - use[i].lo, mid = 0.5 * (use[i].lo + use[i].hi);
      pre.push_back(raw_from_unit(mid)); rec(pre, prob * w); pre.pop_back();
    }
  }
};

inline std::vector<Outcome> enumerate_outcomes(const RunFn& run, unsigned grid, ChoiceStats& st, size_t max_leaves = 1u << 22, bool* capped = nullptr) {
  ChoiceExplorer e; e.run = run; e.grid = grid; e.st = &st; e.max_leaves = max_leaves;
  std::vector<uint64_t> pre;
  e.rec(pre, 1.0);
  if (capped) *capped = e.capped;
  return e.out;
}

inline std::string tape_str(const std::vector<uint64_t>& t) {
  std::string s;
  for (size_t i = 0; i < t.size(); ++i) { if (i) s += "."; s += (t[i] <= 1 ? std::to_string((int)t[i]) : "x" + hex64(t[i])); }
  return s;
}
inline std::vector<uint64_t> tape_parse(const std::string& s) {
  std::vector<uint64_t> t; size_t i = 0;
  while (i < s.size()) {
    size_t e = s.find('.', i); if (e == std::string::npos) e = s.size();
    std::string tok = s.substr(i, e - i);
    if (!tok.empty()) t.push_back(tok[0] == 'x' ? strtoull(tok.c_str() + 1, nullptr, 16) : strtoull(tok.c_str(), nullptr, 10));
    i = e + 1;
  }
  return t;
}

} // namespace mc

#ifdef MC_MAIN
#ifdef MC_COVERAGE
extern "C" {
__attribute__((no_sanitize("coverage"), no_sanitize("address"))) void __sanitizer_cov_trace_pc_guard_init(uint32_t* start, uint32_t* stop) {
  static uint32_t n = 0;
  if (start == stop || *start) return;
  for (uint32_t* x = start; x < stop; ++x) *x = ++n;
  mc::g_cov_present = true;
}
__attribute__((no_sanitize("coverage"), no_sanitize("address"))) void __sanitizer_cov_trace_pc_guard(uint32_t* g) {
  if (mc::g_cov_on) mc::g_cov_hash = (mc::g_cov_hash ^ *g) * 1099511628211ULL;
}
}
#endif
#endif

#endif
