// mc/alloc.hpp -- stateful tracking allocator and instrumented item type.
#ifndef MC_ALLOC_HPP
#define MC_ALLOC_HPP

#include "core.hpp"
#include <memory>
#include <new>
#include <iostream>
#include <memory_operations.hpp>

namespace mc {

// ebpps_sketch::merge calls an unqualified swap(): it is only found through ADL if a template argument lives in a
// namespace that declares swap (std for std::allocator). Make it findable for sketches instantiated with mc::TrackAlloc.
using std::swap;

struct Block { size_t bytes; int arena; };
struct AllocLedger {
  std::map<void*, Block> live;
  std::vector<std::string> errors;
  long long live_bytes = 0; size_t max_request = 0; uint64_t allocations = 0; uint64_t default_constructed = 0;
  size_t request_cap = (size_t)1 << 30;  // single request above this is refused and recorded
  uint64_t refused = 0;
  void error(const std::string& e) { if (errors.size() < 50) errors.push_back(e); }
  void reset() { live.clear(); errors.clear(); live_bytes = 0; max_request = 0; allocations = 0; default_constructed = 0; refused = 0; }
};
inline AllocLedger& ledger() { static AllocLedger l; return l; }

// arena 0 = a default-constructed allocator (never handed out by the harness); arenas >= 1 are user instances
template<class T> class TrackAlloc {
public:
  typedef T value_type; typedef T* pointer; typedef const T* const_pointer; typedef T& reference; typedef const T& const_reference;
  typedef std::size_t size_type; typedef std::ptrdiff_t difference_type;
  template<class U> struct rebind { typedef TrackAlloc<U> other; };
  typedef std::true_type propagate_on_container_move_assignment;
  typedef std::true_type propagate_on_container_copy_assignment;
  typedef std::true_type propagate_on_container_swap;
  int arena;
  TrackAlloc(): arena(0) { ledger().default_constructed++; }
  explicit TrackAlloc(int a): arena(a) {}
  TrackAlloc(const TrackAlloc& o): arena(o.arena) {}
  template<class U> TrackAlloc(const TrackAlloc<U>& o): arena(o.arena) {}
  TrackAlloc& operator=(const TrackAlloc& o) { arena = o.arena; return *this; }
  pointer allocate(size_type n, const void* = 0) {
    AllocLedger& l = ledger();
    size_t bytes = n * sizeof(T);
    if (bytes > l.max_request) l.max_request = bytes;
    if (bytes > l.request_cap || n > ((size_t)-1) / sizeof(T)) { l.refused++; l.error("allocation request of " + std::to_string(bytes) + " bytes above cap"); throw std::bad_alloc(); }
    void* p = ::operator new(bytes ? bytes : 1);
    Block b; b.bytes = bytes; b.arena = arena; l.live[p] = b; l.live_bytes += (long long)bytes; l.allocations++;
    return static_cast<pointer>(p);
  }
  void deallocate(pointer p, size_type n) {
    AllocLedger& l = ledger();
    if (p == nullptr) { if (n != 0) l.error("deallocate(nullptr, " + std::to_string(n) + ")"); return; }
    std::map<void*, Block>::iterator it = l.live.find(static_cast<void*>(p));
    if (it == l.live.end()) { l.error("deallocate of a block that is not live (double free or foreign pointer)"); return; }
    if (it->second.bytes != n * sizeof(T)) l.error("deallocate size mismatch: allocated " + std::to_string(it->second.bytes) + " released " + std::to_string(n * sizeof(T)));
    if (it->second.arena != arena) l.error("deallocate through allocator of arena " + std::to_string(arena) + " for block of arena " + std::to_string(it->second.arena));
    l.live_bytes -= (long long)it->second.bytes;
    l.live.erase(it);
    ::operator delete(static_cast<void*>(p));
  }
  size_type max_size() const { return static_cast<size_type>(-1) / sizeof(T); }
  template<typename U, typename... Args> void construct(U* p, Args&&... args) { new((void*)p) U(std::forward<Args>(args)...); }
  template<typename U> void destroy(U* p) { p->~U(); }
};
template<> class TrackAlloc<void> {
public:
  typedef void value_type; typedef void* pointer; typedef const void* const_pointer;
  template<class U> struct rebind { typedef TrackAlloc<U> other; };
  int arena; TrackAlloc(): arena(0) {} explicit TrackAlloc(int a): arena(a) {}
  template<class U> TrackAlloc(const TrackAlloc<U>& o): arena(o.arena) {}
};
template<class T, class U> bool operator==(const TrackAlloc<T>& a, const TrackAlloc<U>& b) { return a.arena == b.arena; }
template<class T, class U> bool operator!=(const TrackAlloc<T>& a, const TrackAlloc<U>& b) { return a.arena != b.arena; }

// ---------------------------------------------------------------------------------------------
// Instrumented item: a value with a liveness cookie. Every misuse is recorded, never fatal.
struct ItemLedger {
  long long live = 0; uint64_t constructed = 0, destroyed = 0;
  std::vector<std::string> errors;
  void error(const std::string& e) { if (errors.size() < 50) errors.push_back(e); if (getenv("MC_ITEM_TRAP")) __builtin_trap(); /* debugging aid: stack trace at the misuse */ }
  void reset() { live = 0; constructed = destroyed = 0; errors.clear(); }
};
inline ItemLedger& items() { static ItemLedger l; return l; }

class Item {
  static const uint32_t LIVE = 0x11fe11feu, MOVED = 0x30fed0ffu, DEAD = 0xdeadbeefu;
  uint32_t cookie_; int value_;
  void born() { items().live++; items().constructed++; }
public:
  Item(int v): cookie_(LIVE), value_(v) { born(); }
  Item(const Item& o): cookie_(LIVE), value_(o.value_) { if (o.cookie_ != LIVE) items().error(o.cookie_ == MOVED ? "copy from moved-from item" : "copy from dead item"); born(); }
  // moving a moved-from item again is legal (valid but unspecified state, e.g. std::swap of two sketches one of which was moved from)
  Item(Item&& o) noexcept : cookie_(o.cookie_ == LIVE ? LIVE : MOVED), value_(o.value_) { if (o.cookie_ != LIVE && o.cookie_ != MOVED) items().error("move from dead item"); else o.cookie_ = MOVED; born(); }
  Item& operator=(const Item& o) {
    if (cookie_ != LIVE && cookie_ != MOVED) items().error("assign to dead item");
    if (o.cookie_ != LIVE) items().error("assign from non-live item");
    value_ = o.value_; cookie_ = LIVE; return *this;
  }
  Item& operator=(Item&& o) noexcept {
    if (cookie_ != LIVE && cookie_ != MOVED) items().error("move-assign to dead item");
    if (o.cookie_ != LIVE && o.cookie_ != MOVED) items().error("move-assign from dead item");
    const uint32_t src = o.cookie_;
    value_ = o.value_; if (&o != this) { cookie_ = src == LIVE ? LIVE : MOVED; o.cookie_ = MOVED; } return *this;
  }
  ~Item() {
    if (cookie_ != LIVE && cookie_ != MOVED) items().error("destroy of an item that is not live (double destroy or never constructed)");
    else { items().live--; items().destroyed++; }
    cookie_ = DEAD;
  }
  int get() const { if (cookie_ != LIVE) items().error(cookie_ == MOVED ? "read of moved-from item" : "read of dead item"); return value_; }
  bool alive() const { return cookie_ == LIVE; }
};
struct ItemLess { bool operator()(const Item& a, const Item& b) const { return a.get() < b.get(); } };
struct ItemGreater { bool operator()(const Item& a, const Item& b) const { return a.get() > b.get(); } };
struct ItemHash { std::size_t operator()(const Item& a) const { return std::hash<int>()(a.get()); } };
struct ItemEqual { bool operator()(const Item& a, const Item& b) const { return a.get() == b.get(); } };
inline std::ostream& operator<<(std::ostream& os, const Item& a) { return os << a.get(); }

// custom serde: 4 bytes per item, bound-checked, constructs in place on read
struct ItemSerde {
  void serialize(std::ostream& os, const Item* it, unsigned num) const {
    for (unsigned i = 0; i < num; ++i) { int v = it[i].get(); os.write((const char*)&v, sizeof v); }
  }
  void deserialize(std::istream& is, Item* it, unsigned num) const {
    unsigned i = 0;
    try {
      for (; i < num; ++i) { int v; is.read((char*)&v, sizeof v); if (!is.good()) throw std::runtime_error("ItemSerde: stream ended"); new (&it[i]) Item(v); }
    } catch (...) { for (unsigned j = 0; j < i; ++j) it[j].~Item(); throw; }
  }
  size_t size_of_item(const Item&) const { return sizeof(int); }
  size_t serialize(void* ptr, size_t capacity, const Item* it, unsigned num) const {
    size_t n = sizeof(int) * num; datasketches::check_memory_size(n, capacity);
    for (unsigned i = 0; i < num; ++i) { int v = it[i].get(); memcpy(static_cast<char*>(ptr) + i * sizeof(int), &v, sizeof v); }
    return n;
  }
  size_t deserialize(const void* ptr, size_t capacity, Item* it, unsigned num) const {
    size_t n = sizeof(int) * num; datasketches::check_memory_size(n, capacity);
    for (unsigned i = 0; i < num; ++i) { int v; memcpy(&v, static_cast<const char*>(ptr) + i * sizeof(int), sizeof v); new (&it[i]) Item(v); }
    return n;
  }
};

} // namespace mc
#endif
