// mc/prob.hpp -- E3 over a fixed operation history: the exact distribution over canonical states induced by the
// library's internal random draws, with Markov merging (leaves with equal canon are merged and their mass added;
// sound because canon contains every field the future depends on and the RNG is external to the state).
// Uses the same System concept as mc/bfs.hpp.
#ifndef MC_PROB_HPP
#define MC_PROB_HPP
#include "core.hpp"
#include "choice.hpp"
#include "bfs.hpp"

namespace mc {

struct Leaf { double prob; Hist hist; std::string canon; uint64_t draws, draws_min, draws_max; /* total draws consumed along the histories merged into this leaf */ };

template<class Sys>
struct ProbTree {
  typedef typename Sys::State State;
  Sys& sys; Report& rep; unsigned grid; ChoiceStats st;
  uint64_t replays = 0, transitions = 0, merged_states = 0, raw_leaves = 0; bool capped = false;
  bool draws_outcome_dependent = false; std::string draws_witness;
  size_t max_leaves;
  ProbTree(Sys& s, Report& r, unsigned g, size_t ml = 1u << 20): sys(s), rep(r), grid(g), max_leaves(ml) {}

  std::string hist_str(const Hist& h) const {
    std::string s;
    for (size_t i = 0; i < h.size(); ++i) { if (i) s += ";"; s += sys.opname(h[i].op); if (!h[i].tape.empty()) s += "~" + tape_str(h[i].tape); }
    return s;
  }
  std::unique_ptr<State> replay(const Hist& h, Ctx* last_ctx, Tape* last_tape = nullptr, uint64_t fill = 0x8000000000000000ULL) {
    std::unique_ptr<State> s(sys.make()); replays++;
    for (size_t i = 0; i < h.size(); ++i) {
      Tape t; t.v = h[i].tape; t.set_fill(fill);
      bool ok;
      try { TapeScope sc(t); ok = sys.apply(*s, h[i].op, i + 1 == h.size() ? last_ctx : nullptr); }
      catch (const std::exception& e) {
        if (i + 1 == h.size() && last_ctx) { last_ctx->fail("unexpected-exception", std::string("operation threw: ") + e.what()); ok = true; }
        else throw;
      }
      if (!ok) { fprintf(stderr, "HARNESS-ERROR: op %s disabled in a probabilistic history\n", sys.opname(h[i].op).c_str()); abort(); }
      if (i + 1 == h.size() && last_tape) *last_tape = t;
    }
    return s;
  }
  std::vector<Leaf> root() { std::vector<Leaf> v; Leaf l; l.prob = 1; l.draws = l.draws_min = l.draws_max = 0; std::unique_ptr<State> s(sys.make()); l.canon = sys.canon(*s); v.push_back(l); return v; }

  // apply `op` to every leaf; every outcome of the op's draws becomes a branch; merged by canon.
  // sys.check is evaluated on every branch (merged state). Returns the new distribution (sorted by canon for determinism).
  std::vector<Leaf> step(const std::vector<Leaf>& cur, size_t op) {
    std::map<std::string, Leaf> next;
    const std::string sc = sys.name();
    for (size_t li = 0; li < cur.size() && !capped; ++li) {
      Hist h = cur[li].hist; Step stp; stp.op = (uint16_t)op; h.push_back(stp);
      if (!journal(sc, hist_str(h))) continue;
      ProbTree* self = this; Hist* hp = &h;
      RunFn rf = [self, hp](const std::vector<uint64_t>& tape, uint64_t fill) -> RunResult {
        hp->back().tape = tape; Tape t; RunResult r;
        try { std::unique_ptr<State> s2 = self->replay(*hp, nullptr, &t, fill); r.canon = self->sys.canon(*s2); }
        catch (const std::exception& e) { r.failed = true; r.canon = e.what(); }
        r.kinds = t.kinds; r.seg = t.seg; return r;
      };
      bool cap2 = false;
      std::vector<Outcome> outs = enumerate_outcomes(rf, grid, st, max_leaves, &cap2);
      if (cap2) { capped = true; rep.cap("choice tree of one operation exceeded the leaf cap in " + sc); }
      double mass = 0; size_t nd0 = outs.empty() ? 0 : outs[0].tape.size();
      for (size_t k = 0; k < outs.size(); ++k) {
        mass += outs[k].prob; transitions++; raw_leaves++;
        if (outs[k].tape.size() != nd0 && !draws_outcome_dependent) { draws_outcome_dependent = true; h.back().tape = outs[k].tape; draws_witness = hist_str(h); }
        std::string key = outs[k].canon;
        std::map<std::string, Leaf>::iterator f = next.find(key);
        if (f != next.end()) {
          f->second.prob += cur[li].prob * outs[k].prob;
          f->second.draws_min = std::min(f->second.draws_min, cur[li].draws_min + outs[k].tape.size());
          f->second.draws_max = std::max(f->second.draws_max, cur[li].draws_max + outs[k].tape.size());
          continue;
        }
        Leaf nl; nl.prob = cur[li].prob * outs[k].prob; nl.hist = h; nl.hist.back().tape = outs[k].tape; nl.canon = key; nl.draws = cur[li].draws + outs[k].tape.size(); nl.draws_min = cur[li].draws_min + outs[k].tape.size(); nl.draws_max = cur[li].draws_max + outs[k].tape.size();
        // oracle on the new merged state
        std::string hs = hist_str(nl.hist);
        if (journal(sc, hs)) {
          Ctx ctx(rep, sc, hs); int a0 = asan_errors();
          std::unique_ptr<State> s3 = replay(nl.hist, &ctx);
          safe_check(sys, *s3, ctx);
          if (asan_errors() != a0) ctx.fail("asan", "AddressSanitizer report during this operation");
          if (key.compare(0, 7, "FAILED:") == 0) ctx.fail("draw-runaway", key);
          rep.flush_ctx_fails(ctx.fails, sc, hs);
        }
        next[key] = nl;
      }
      if (std::fabs(mass - 1.0) > 1e-9 && !cap2) { fprintf(stderr, "HARNESS-ERROR: choice mass %.15g != 1 in %s at %s\n", mass, sc.c_str(), hist_str(h).c_str()); abort(); }
    }
    std::vector<Leaf> out;
    for (std::map<std::string, Leaf>::iterator i = next.begin(); i != next.end(); ++i) out.push_back(i->second);
    merged_states += out.size();
    return out;
  }
  // expectation of f over a distribution; f gets a freshly replayed state
  template<class F> double expect(const std::vector<Leaf>& d, F f) {
    double e = 0;
    for (size_t i = 0; i < d.size(); ++i) { std::unique_ptr<State> s = replay(d[i].hist, nullptr); e += d[i].prob * f(*s); }
    return e;
  }
  void account() { rep.states += merged_states; rep.transitions += transitions; rep.traces += merged_states; }
};

} // namespace mc
#endif
