// mc/prob.hpp -- E3 over a fixed operation history: the exact distribution over canonical states induced by the
// library's internal random draws, with Markov merging (leaves with equal canon are merged and their mass added;
// sound because canon contains every field the future depends on and the RNG is external to the state).
// Uses the same System concept as mc/bfs.hpp.
#ifndef MC_PROB_HPP
#define MC_PROB_HPP
#include "core.hpp"
#include "choice.hpp"
#include "bfs.hpp"
#include <memory>

namespace mc {

struct Leaf { double prob; Hist hist; std::string canon; uint64_t draws, draws_min, draws_max; /* total draws consumed along the histories merged into this leaf */ };

template<class Sys>
struct ProbTree {
  typedef typename Sys::State State;
  Sys& sys; Report& rep; unsigned grid; ChoiceStats st;
  uint64_t replays = 0, transitions = 0, merged_states = 0, raw_leaves = 0; bool capped = false;
  bool draws_outcome_dependent = false; std::string draws_witness;
  size_t max_leaves;
  ProbTree(Sys& s, Report& r, unsigned g, size_t ml = 1u << 20): sys(s), rep(r), grid(g), max_leaves(ml) {}

  std::string hist_str(const Hist& h) const {
    std::string s;
    for (size_t i = 0; i < h.size(); ++i) { if (i) s += ";"; s += sys.opname(h[i].op); if (!h[i].tape.empty()) s += "~" + tape_str(h[i].tape); }
    return s;
  }
  std::unique_ptr<State> replay(const Hist& h, Ctx* last_ctx, Tape* last_tape = nullptr, uint64_t fill = 0x8000000000000000ULL) {
    std::unique_ptr<State> s(sys.make()); replays++;
    for (size_t i = 0; i < h.size(); ++i) {
      Tape t; t.v = h[i].tape; t.set_fill(fill);
      bool ok;
      try { TapeScope sc(t); ok = sys.apply(*s, h[i].op, i + 1 == h.size() ? last_ctx : nullptr); }
      catch (const std::exception& e) {
        if (i + 1 == h.size() && last_ctx) { last_ctx->fail("unexpected-exception", std::string("operation threw: ") + e.what()); ok = true; }
        else throw;
      }
      if (!ok) { fprintf(stderr, "HARNESS-ERROR: op %s disabled in a probabilistic history\n", sys.opname(h[i].op).c_str()); abort(); }
      if (i + 1 == h.size() && last_tape) *last_tape = t;
    }
    return s;
  }
  std::vector<Leaf> root() { std::vector<Leaf> v; Leaf l; l.prob = 1; l.draws = l.draws_min = l.draws_max = 0; std::unique_ptr<State> s(sys.make()); l.canon = sys.canon(*s); v.push_back(l); return v; }

  // apply `op` to every leaf; every outcome of the op's draws becomes a branch; merged by canon.
  // sys.check is evaluated on every branch (merged state). Returns the new distribution (sorted by canon for determinism).
  std::vector<Leaf> step(const std::vector<Leaf>& cur, size_t op) {
    std::map<std::string, Leaf> next;
    const std::string sc = sys.name();
    for (size_t li = 0; li < cur.size() && !capped; ++li) {
      Hist h = cur[li].hist; Step stp; stp.op = (uint16_t)op; h.push_back(stp);
      if (!journal(sc, hist_str(h))) continue;
      ProbTree* self = this; Hist* hp = &h;
      RunFn rf = [self, hp](const std::vector<uint64_t>& tape, uint64_t fill) -> RunResult {
        hp->back().tape = tape; Tape t; RunResult r;
        try { std::unique_ptr<State> s2 = self->replay(*hp, nullptr, &t, fill); r.canon = self->sys.canon(*s2); }
        catch (const std::exception& e) { r.failed = true; r.canon = e.what(); }
        r.kinds = t.kinds; r.seg = t.seg; return r;
      };
      bool cap2 = false;
      std::vector<Outcome> outs = enumerate_outcomes(rf, grid, st, max_leaves, &cap2);
      if (cap2) { capped = true; rep.cap("choice tree of one operation exceeded the leaf cap in " + sc); }
      double mass = 0; size_t nd0 = outs.empty() ? 0 : outs[0].tape.size();
      for (size_t k = 0; k < outs.size(); ++k) {
        mass += outs[k].prob; transitions++; raw_leaves++;
        if (outs[k].tape.size() != nd0 && !draws_outcome_dependent) { draws_outcome_dependent = true; h.back().tape = outs[k].tape; draws_witness = hist_str(h); }
        std::string key = outs[k].canon;
        std::map<std::string, Leaf>::iterator f = next.find(key);
        if (f != next.end()) {
          f->second.prob += cur[li].prob * outs[k].prob;
          f->second.draws_min = std::min(f->second.draws_min, cur[li].draws_min + outs[k].tape.size());
          f->second.draws_max = std::max(f->second.draws_max, cur[li].draws_max + outs[k].tape.size());
          continue;
        }
        Leaf nl; nl.prob = cur[li].prob * outs[k].prob; nl.hist = h; nl.hist.back().tape = outs[k].tape; nl.canon = key; nl.draws = cur[li].draws + outs[k].tape.size(); nl.draws_min = cur[li].draws_min + outs[k].tape.size(); nl.draws_max = cur[li].draws_max + outs[k].tape.size();
        // oracle on the new merged state
        std::string hs = hist_str(nl.hist);
        if (journal(sc, hs)) {
          Ctx ctx(rep, sc, hs); int a0 = asan_errors();
          std::unique_ptr<State> s3 = replay(nl.hist, &ctx);
          safe_check(sys, *s3, ctx);
          if (asan_errors() != a0) ctx.fail("asan", "AddressSanitizer report during this operation");
          if (key.compare(0, 7, "FAILED:") == 0) ctx.fail("draw-runaway", key);
          rep.flush_ctx_fails(ctx.fails, sc, hs);
        }
        next[key] = nl;
      }
      if (std::fabs(mass - 1.0) > 1e-9 && !cap2) { fprintf(stderr, "HARNESS-ERROR: choice mass %.15g != 1 in %s at %s\n", mass, sc.c_str(), hist_str(h).c_str()); abort(); }
    }
    std::vector<Leaf> out;
    for (std::map<std::string, Leaf>::iterator i = next.begin(); i != next.end(); ++i) out.push_back(i->second);
    merged_states += out.size();
    return out;
  }
  // expectation of f over a distribution; f gets a freshly replayed state
  template<class F> double expect(const std::vector<Leaf>& d, F f) {
    double e = 0;
    for (size_t i = 0; i < d.size(); ++i) { std::unique_ptr<State> s = replay(d[i].hist, nullptr); e += d[i].prob * f(*s); }
    return e;
  }
  void account() { rep.states += merged_states; rep.transitions += transitions; rep.traces += merged_states; }
};

// Live variant for long histories: every leaf keeps its live state and successors are produced from a clone of it
// (Sys::clone) instead of by replaying the whole history. The clone is validated against the leaf's canonical string every
// time, so a broken copy constructor cannot silently change what is explored (it stops the run as a broken check).
template<class Sys>
struct LiveTree {
  typedef typename Sys::State State;
  struct LLeaf { double prob; std::shared_ptr<State> st; std::string canon; uint64_t draws_min, draws_max; Hist hist; };
  Sys& sys; Report& rep; unsigned grid; ChoiceStats st; size_t max_leaves;
  uint64_t transitions = 0, merged_states = 0, raw_leaves = 0, clones = 0; bool capped = false;
  bool draws_outcome_dependent = false; std::string draws_witness;
  LiveTree(Sys& s, Report& r, unsigned g, size_t ml = 1u << 20): sys(s), rep(r), grid(g), max_leaves(ml) {}
  std::string hist_str(const Hist& h) const {
    std::string s2;
    for (size_t i = 0; i < h.size(); ++i) { if (i) s2 += ";"; s2 += sys.opname(h[i].op); if (!h[i].tape.empty()) s2 += "~" + tape_str(h[i].tape); }
    return s2;
  }
  std::vector<LLeaf> root() { std::vector<LLeaf> v; LLeaf l; l.prob = 1; l.draws_min = l.draws_max = 0; l.st.reset(sys.make()); l.canon = sys.canon(*l.st); v.push_back(l); return v; }
  std::shared_ptr<State> apply_on_clone(const LLeaf& leaf, size_t op, const std::vector<uint64_t>& tape, uint64_t fill, Tape* out) {
    std::shared_ptr<State> s2(sys.clone(*leaf.st)); clones++;
    Tape t; t.v = tape; t.set_fill(fill);
    { TapeScope sc(t); if (!sys.apply(*s2, op, nullptr)) { fprintf(stderr, "HARNESS-ERROR: op disabled in a probabilistic history\n"); abort(); } }
    if (out) *out = t;
    return s2;
  }
  std::vector<LLeaf> step(const std::vector<LLeaf>& cur, size_t op) {
    std::map<std::string, LLeaf> next; const std::string sc = sys.name();
    for (size_t li = 0; li < cur.size() && !capped; ++li) {
      const LLeaf& leaf = cur[li];
      { std::shared_ptr<State> probe(sys.clone(*leaf.st)); if (sys.canon(*probe) != leaf.canon) { fprintf(stderr, "HARNESS-ERROR: clone differs from its source in %s (copy construction is broken: see C19)\n", sc.c_str()); abort(); } }
      Hist h = leaf.hist; Step stp; stp.op = (uint16_t)op; h.push_back(stp);
      if (!journal(sc, hist_str(h))) continue;
      LiveTree* self = this; const LLeaf* lp = &leaf;
      RunFn rf = [self, lp, op](const std::vector<uint64_t>& tape, uint64_t fill) -> RunResult {
        Tape t; RunResult r;
        try { std::shared_ptr<State> s2 = self->apply_on_clone(*lp, op, tape, fill, &t); r.canon = self->sys.canon(*s2); }
        catch (const std::exception& e) { r.failed = true; r.canon = e.what(); }
        r.kinds = t.kinds; r.seg = t.seg; return r;
      };
      bool cap2 = false;
      std::vector<Outcome> outs = enumerate_outcomes(rf, grid, st, max_leaves, &cap2);
      if (cap2) { capped = true; rep.cap("choice tree of one operation exceeded the leaf cap in " + sc); }
      double mass = 0; size_t nd0 = outs.empty() ? 0 : outs[0].tape.size();
      for (size_t k = 0; k < outs.size(); ++k) {
        mass += outs[k].prob; transitions++; raw_leaves++;
        if (outs[k].tape.size() != nd0 && !draws_outcome_dependent) { draws_outcome_dependent = true; h.back().tape = outs[k].tape; draws_witness = hist_str(h); }
        typename std::map<std::string, LLeaf>::iterator f = next.find(outs[k].canon);
        if (f != next.end()) {
          f->second.prob += leaf.prob * outs[k].prob;
          f->second.draws_min = std::min(f->second.draws_min, leaf.draws_min + outs[k].tape.size());
          f->second.draws_max = std::max(f->second.draws_max, leaf.draws_max + outs[k].tape.size());
          continue;
        }
        LLeaf nl; nl.prob = leaf.prob * outs[k].prob; nl.hist = h; nl.hist.back().tape = outs[k].tape; nl.canon = outs[k].canon;
        nl.draws_min = leaf.draws_min + outs[k].tape.size(); nl.draws_max = leaf.draws_max + outs[k].tape.size();
        nl.st = apply_on_clone(leaf, op, outs[k].tape, 0x8000000000000000ULL, nullptr);
        { Ctx ctx(rep, sc, hist_str(nl.hist)); int a0 = asan_errors(); safe_check(sys, *nl.st, ctx);
          if (asan_errors() != a0) ctx.fail("asan", "AddressSanitizer report during this operation");
          rep.flush_ctx_fails(ctx.fails, sc, hist_str(nl.hist)); }
        next[nl.canon] = nl;
      }
      if (std::fabs(mass - 1.0) > 1e-9 && !cap2) { fprintf(stderr, "HARNESS-ERROR: choice mass %.15g != 1 in %s\n", mass, sc.c_str()); abort(); }
    }
    std::vector<LLeaf> out;
    for (typename std::map<std::string, LLeaf>::iterator i = next.begin(); i != next.end(); ++i) out.push_back(i->second);
    merged_states += out.size();
    return out;
  }
  void account() { rep.states += merged_states; rep.transitions += transitions; rep.traces += merged_states; }
};

} // namespace mc
#endif
