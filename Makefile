# Builds build/<harness> from harness/<harness>.cpp against the headers in /repo's working tree.
REPO ?= /repo
BUILD ?= build
CXX  := clang++
INC  := $(foreach d,common theta tuple hll cpc kll req quantiles fi count sampling tdigest filters density,-I$(REPO)/$(d)/include) -I$(REPO)/common/test -Imc
BASE := -std=c++11 -O1 -g0 -DDATASKETCHES_VERIF -fno-access-control -fsanitize=address -fsanitize-recover=address -fno-omit-frame-pointer -Wno-deprecated-declarations -Wno-unused-command-line-argument
COV  := -fsanitize-coverage=trace-pc-guard -DMC_COVERAGE
HARNESSES := $(patsubst harness/%.cpp,%,$(wildcard harness/*.cpp))
# harnesses that need the control-flow signature for raw-draw interval discovery
COVERAGE_HARNESSES := C08 C16 C18 C20 selftest

all: $(addprefix $(BUILD)/,$(HARNESSES))

$(BUILD)/%: harness/%.cpp $(wildcard mc/*.hpp) $(wildcard harness/*.hpp)
	@mkdir -p $(BUILD)
	$(CXX) $(BASE) $(if $(filter $*,$(COVERAGE_HARNESSES)),$(COV),) $(INC) -MMD -MP -MF $(BUILD)/$*.d -o $@ $<

-include $(wildcard $(BUILD)/*.d)

clean:
	rm -rf $(BUILD)
.PHONY: all clean
