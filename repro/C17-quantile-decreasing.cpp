// C17: tdigest::get_quantile is DEcreasing in the rank between two adjacent centroids (public API only).
// Cause: tdigest/include/tdigest_impl.hpp:190 passes the interpolation weights to weighted_average() in the wrong
// order (the reference implementation uses weightedAverage(mean[i], z2, mean[i+1], z1)).
// Build: clang++ -std=c++11 -I/repo/common/include -I/repo/tdigest/include C17-quantile-decreasing.cpp -o /tmp/C17-q && /tmp/C17-q
// Expected: "ok"; observed on the unchanged tree: hundreds of inversions, exit code 1.
#include <tdigest.hpp>
#include <cstdio>
int main() {
  int bad = 0;
  const int ks[] = {10, 200};
  for (int ki = 0; ki < 2; ++ki) {
    const int n = ks[ki] == 10 ? 100 : 100000;
    datasketches::tdigest<double> td(ks[ki]);
    for (int i = 0; i < n; ++i) td.update(i);
    double prev = td.get_quantile(0);
    int inversions = 0; double worst = 0, at = 0;
    for (int j = 1; j <= 1000; ++j) {
      double q = td.get_quantile(j / 1000.0);
      if (q < prev) { ++inversions; if (prev - q > worst) { worst = prev - q; at = j / 1000.0; } }
      prev = q;
    }
    std::printf("k=%d n=%d: %d of 1000 consecutive rank pairs have get_quantile(r1) > get_quantile(r2) for r1 < r2; largest drop %.6g at rank %.3f\n", ks[ki], n, inversions, worst, at);
    bad += inversions;
  }
  // smallest history found by the explorer: 1,1,2 merged with itself twice (12 values)
  datasketches::tdigest<double> t(10);
  t.update(1); t.update(1); t.update(2); t.merge(t); t.merge(t);
  std::printf("values {1 x8, 2 x4}: get_quantile(0.5) = %.10g, get_quantile(0.50390625) = %.10g\n", t.get_quantile(0.5), t.get_quantile(0.50390625));
  if (t.get_quantile(0.5) > t.get_quantile(0.50390625)) ++bad;
  std::printf(bad ? "DEFECT: get_quantile is not monotone in the rank\n" : "ok\n");
  return bad ? 1 : 0;
}
