// C17: tdigest::get_quantile can return a value outside [min, max] (by rounding) -- e.g. on a constant stream.
// Cause: tdigest/include/tdigest_impl.hpp:298 weighted_average() returns (x1*w1 + x2*w2)/(w1+w2) unclamped; the reference
// implementation clamps the result into [x1, x2] for exactly this reason.
// Build: clang++ -std=c++11 -I/repo/common/include -I/repo/tdigest/include C17-quantile-outside-min-max.cpp -o /tmp/C17-m && /tmp/C17-m
#include <tdigest.hpp>
#include <cstdio>
int main() {
  datasketches::tdigest<double> td(10);
  for (int i = 0; i < 30; ++i) td.update(1000.001);
  int bad = 0;
  for (int j = 0; j <= 256; ++j) {
    double q = td.get_quantile(j / 256.0);
    if (q < td.get_min_value() || q > td.get_max_value()) {
      if (!bad) std::printf("30 x 1000.001: get_quantile(%.8f) = %.17g but min = max = %.17g\n", j / 256.0, q, td.get_min_value());
      ++bad;
    }
  }
  std::printf(bad ? "DEFECT: %d of 257 quantiles of a constant stream lie outside [min, max]\n" : "ok\n", bad);
  return bad ? 1 : 0;
}
