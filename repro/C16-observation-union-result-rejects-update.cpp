// C16 observation (NOT counted as a violation: updating a union result is outside the C16 statement).
// A union result produced by the "pseudo-exact" coercer can hold an H item that is lighter than tau; the result is
// weight-preserving and unbiased, but the next update() on it throws std::logic_error("sketch not in valid estimation mode").
// Cause: var_opt_union_impl.hpp, detect_and_handle_subcase_of_pseudo_exact(): the guard
//   there_exist_unmarked_h_items_lighter_than_target(gadget_.get_tau())
// is evaluated when gadget_.r_ == 0 (condition1), where get_tau() returns NaN, so the comparison is always false;
// the intended threshold is the outer tau (get_outer_tau()).
// compile: g++ -std=c++11 -I/repo/common/include -I/repo/sampling/include C16-observation-union-result-rejects-update.cpp -o obs && ./obs
#include <var_opt_sketch.hpp>
#include <var_opt_union.hpp>
#include <iostream>
using namespace datasketches;
int main(){
  var_opt_sketch<int> a(2), b(2);
  for (int i=0;i<3;i++) a.update(i, 5.0);   // estimation mode, tau = 7.5
  b.update(10, 1.0);                         // exact, lighter than tau
  var_opt_union<int> u(3); u.update(a); u.update(b);
  auto r = u.get_result();
  std::cout << r.to_string();
  for (auto it = r.begin(); it != r.end(); ++it) std::cout << (*it).first << " " << (*it).second << "\n";
  try { r.update(99, 1.0); std::cout << "update ok\n"; } catch (std::exception& e) { std::cout << "update of union result threw: " << e.what() << "\n"; }
}
