// C16 observation (NOT counted as a violation: updating a union result is outside the C16 statement).
// A union result produced by the "pseudo-exact" coercer can hold an H item that is lighter than tau; the result is
// weight-preserving and unbiased, but the next update() on it throws std::logic_error("sketch not in valid estimation mode").
// Cause: var_opt_union_impl.hpp, detect_and_handle_subcase_of_pseudo_exact(): the guard
//   there_exist_unmarked_h_items_lighter_than_target(gadget_.get_tau())
// is evaluated when gadget_.r_ == 0 (condition1), where get_tau() returns NaN, so the comparison is always false;
// the intended threshold is the outer tau (get_outer_tau()).
// compile: g++ -std=c++11 -I/repo/common/include -I/repo/sampling/include C16-observation-union-result-rejects-update.cpp -o obs && ./obs
#include <var_opt_sketch.hpp>
#include <var_opt_union.hpp>
#include <iostream>
using namespace datasketches;
int main(){
  var_opt_sketch<int> a(2), b(2);
  for (int i=0;i<3;i++) a.update(i, 5.0);   // estimation mode, tau = 7.5
  b.update(10, 1.0);                         // exact, lighter than tau
  var_opt_union<int> u(3); u.update(a); u.update(b);
  auto r = u.get_result();
  std::cout << r.to_string();
  for (auto it = r.begin(); it != r.end(); ++it) std::cout << (*it).first << " " << (*it).second << "\n";
  try { r.update(99, 1.0); std::cout << "update ok\n"; } catch (std::exception& e) { std::cout << "update of union result threw: " << e.what() << "\n"; }
  // second observation, same coercer (mark_moving_gadget_coercer copies the unmarked H items in arrival order and never
  // heapifies them): the result is in estimation mode but its H region is not a min-heap (root 10, child 1), so a later
  // update() consults the wrong minimum (peek_min() == 10).
  var_opt_sketch<int> c(2), d(2);
  c.update(0, 1.0);                                   // exact
  d.update(10, 1.0); d.update(11, 10.0); d.update(12, 1.0);   // estimation mode: H = {11}, R = one of {10,12}, tau = 2
  var_opt_union<int> u2(3); u2.update(d); u2.update(c);
  auto r2 = u2.get_result();
  std::cout << "second result, items in array order (H first):\n";
  for (auto it = r2.begin(); it != r2.end(); ++it) std::cout << (*it).first << " " << (*it).second << "\n";
}
