// C16 reproducer: a var_opt_sketch that went through serialize -> deserialize while in estimation mode
// STATUS: reproduced on the snapshot tree (70f9031); repaired in /repo by commit 47a49b5 "fix: var_opt_sketch deserialize restores the gap count m as 0" (exit 0 since then).
// (n > k) cannot be updated any more: every update() throws std::logic_error, and n has already been incremented.
// The same happens to a deserialized var_opt_union whose gadget is in estimation mode (update and get_result throw).
// Cause: both var_opt_sketch::deserialize overloads construct the sketch with m_ = (r > 0 ? 1 : 0) instead of 0
//   sampling/include/var_opt_sketch_impl.hpp:553 (bytes) and :638 (stream)
// compile: g++ -std=c++11 -I/repo/common/include -I/repo/sampling/include C16-deserialized-sketch-rejects-updates.cpp -o repro && ./repro
#include <var_opt_sketch.hpp>
#include <var_opt_union.hpp>
#include <iostream>
#include <sstream>
using namespace datasketches;
int main() {
  int bad = 0;
  var_opt_sketch<int> sk(2);
  for (int i = 0; i < 3; ++i) sk.update(i, 1.0 + i);           // n = 3 > k = 2: estimation mode
  auto bytes = sk.serialize();
  auto a = var_opt_sketch<int>::deserialize(bytes.data(), bytes.size());
  try { a.update(3, 1.0); std::cout << "light update after bytes round trip: ok\n"; }
  catch (const std::exception& e) { std::cout << "light update after bytes round trip threw: " << e.what() << " (n is now " << a.get_n() << ")\n"; bad++; }
  std::stringstream ss(std::ios::in | std::ios::out | std::ios::binary); sk.serialize(ss);
  auto b = var_opt_sketch<int>::deserialize(ss);
  try { b.update(3, 1000.0); std::cout << "heavy update after stream round trip: ok\n"; }
  catch (const std::exception& e) { std::cout << "heavy update after stream round trip threw: " << e.what() << "\n"; bad++; }
  // union: gadget in estimation mode with a marked item in H
  var_opt_sketch<int> s1(2), s2(2);
  for (int i = 0; i < 4; ++i) s1.update(i, 1.0);
  for (int i = 0; i < 4; ++i) s2.update(10 + i, 5.0);
  var_opt_union<int> u(2); u.update(s1); u.update(s2);      // gadget now holds 4 candidates for k = 2: estimation mode
  auto ub = u.serialize();
  auto u2 = var_opt_union<int>::deserialize(ub.data(), ub.size());
  try { u2.update(s1); auto r = u2.get_result(); std::cout << "union after round trip: ok, n=" << r.get_n() << "\n"; }
  catch (const std::exception& e) { std::cout << "union update/get_result after round trip threw: " << e.what() << "\n"; bad++; }
  return bad ? 1 : 0;
}
