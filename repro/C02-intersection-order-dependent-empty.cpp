// C02 reproducer: the result of theta_intersection depends on the order in which the same three sketches are presented.
// A and B are exact and disjoint, C is in estimation mode (theta = 0.5).
//   order A, C, B : non-empty, theta 0.5, nothing retained   (theta = min input theta, as documented for set operations)
//   order A, B, C : EMPTY, theta 1.0  -- after A n B found no match at theta 1.0 the operator marks itself empty
//                   (theta_intersection_base_impl.hpp:88) and update() then ignores every further input (line 39),
//                   including its theta and even a sketch hashed with another seed.
//
// g++ -std=c++11 -I/repo/common/include -I/repo/theta/include C02-intersection-order-dependent-empty.cpp -o /tmp/c02-inter && /tmp/c02-inter
#include <theta_intersection.hpp>
#include <theta_sketch.hpp>
#include <iostream>
using namespace datasketches;

static void show(const char* what, const compact_theta_sketch& r) {
  std::cout << what << ": is_empty=" << r.is_empty() << " theta=" << r.get_theta() << " retained=" << r.get_num_retained()
            << " estimate=" << r.get_estimate() << " ub(2)=" << r.get_upper_bound(2) << "\n";
}

int main() {
  update_theta_sketch a = update_theta_sketch::builder().build();
  update_theta_sketch b = update_theta_sketch::builder().build();
  update_theta_sketch c = update_theta_sketch::builder().set_p(0.5f).build();
  for (int i = 0; i < 10; ++i) a.update(i);
  for (int i = 100; i < 110; ++i) b.update(i);
  for (int i = 0; i < 1000; ++i) c.update(i);

  theta_intersection acb; acb.update(a); acb.update(c); acb.update(b);
  theta_intersection abc; abc.update(a); abc.update(b); abc.update(c);
  compact_theta_sketch r1 = acb.get_result(), r2 = abc.get_result();
  show("A n C n B", r1);
  show("A n B n C", r2);

  // the absorbed state also swallows what update() otherwise refuses
  update_theta_sketch other_seed = update_theta_sketch::builder().set_seed(7).build();
  other_seed.update(1);
  bool refused = false;
  try { abc.update(other_seed); } catch (const std::invalid_argument&) { refused = true; }
  std::cout << "other-seed sketch after A n B: " << (refused ? "refused" : "silently accepted") << "\n";

  bool bad = r1.is_empty() != r2.is_empty() || r1.get_theta64() != r2.get_theta64();
  std::cout << (bad ? "DEFECT: intersection result depends on the order of the inputs" : "ok") << std::endl;
  return bad ? 1 : 0;
}
