// C05 reproducer: an empty cpc_sketch does not survive serialize -> deserialize.
//
// The image of an empty sketch has the HAS_HIP flag but (correctly) carries no HIP fields. Both deserialize() overloads
// initialise their local `kxp` to 0 and only overwrite it when the image has a table or a window, so the restored empty
// sketch has kxp == 0 instead of k = 2^lg_k. The first update then computes k / kxp = +inf in update_hip(): the HIP
// accumulator, get_estimate(), get_lower_bound() and get_upper_bound() are +inf from then on (and kxp goes negative).
//
// Cause: cpc/include/cpc_sketch_impl.hpp:535 (stream) and :620 (bytes)  `double kxp = 0;`
//        -> constructor at :743 stores it unchanged. (The Java implementation starts from a fresh sketch, i.e. kxp = k.)
//
// Build and run (public API only):
//   g++ -std=c++11 -I/repo/common/include -I/repo/cpc/include /verif/repro/C05-deserialized-empty-sketch-kxp-zero.cpp -o /tmp/c05-repro && /tmp/c05-repro
// Expected on a correct library: both estimates equal (about 100.9), exit code 0. Observed: "restored: inf", exit code 1.
#include <cpc_sketch.hpp>
#include <cmath>
#include <cstdio>
#include <sstream>

int main() {
  using datasketches::cpc_sketch;
  cpc_sketch original(11);
  cpc_sketch::vector_bytes image = original.serialize();
  cpc_sketch from_bytes = cpc_sketch::deserialize(image.data(), image.size());
  std::stringstream ss(std::ios::in | std::ios::out | std::ios::binary);
  original.serialize(ss);
  cpc_sketch from_stream = cpc_sketch::deserialize(ss);

  for (int i = 0; i < 100; ++i) { original.update(i); from_bytes.update(i); from_stream.update(i); }

  std::printf("original: estimate %.6f  [%.3f, %.3f]\n", original.get_estimate(), original.get_lower_bound(2), original.get_upper_bound(2));
  std::printf("restored (bytes):  estimate %.6f  [%.3f, %.3f]\n", from_bytes.get_estimate(), from_bytes.get_lower_bound(2), from_bytes.get_upper_bound(2));
  std::printf("restored (stream): estimate %.6f  [%.3f, %.3f]\n", from_stream.get_estimate(), from_stream.get_lower_bound(2), from_stream.get_upper_bound(2));
  const bool ok = original.get_estimate() == from_bytes.get_estimate() && original.get_estimate() == from_stream.get_estimate();
  std::printf(ok ? "OK\n" : "DEFECT: the deserialized empty sketch does not behave like the sketch that was serialized\n");
  return ok ? 0 : 1;
}
