// KNOWN FINDING (C17), not repaired: get_rank decreases between the minimum and a singleton first centroid.
// A digest restored from a reference-format image whose first centroid weighs more than one keeps its true minimum only in
// min_. An update with a value between that minimum and the first centroid's mean then becomes a singleton FIRST centroid
// while min_ stays below it; get_rank's left-tail interpolation (weight/2 - 1 = -0.5) then runs downwards from 1/W at the
// minimum side to 0.5/W at the centroid. The reference implementation (MergingDigest.cdf) has the same formula.
// g++ -std=c++11 -I/repo/common/include -I/repo/tdigest/include repro/C17-rank-decreasing-after-update-below-heavy-first-centroid.cpp
#include <tdigest.hpp>
#include <cstdio>
#include <cstring>
#include <vector>
using namespace datasketches;
static void be(std::vector<uint8_t>& o, const void* p, size_t n) { const uint8_t* b = (const uint8_t*)p; for (size_t i = 0; i < n; ++i) o.push_back(b[n - 1 - i]); }
int main() {
  // reference "small" encoding (type 2): min, max (double), compression (float), two u16 sizes, u16 count, (weight, mean) floats
  std::vector<uint8_t> o; o.push_back(0); o.push_back(0); o.push_back(0); o.push_back(2);
  double mn = 0, mx = 31; be(o, &mn, 8); be(o, &mx, 8);
  float k = 10; be(o, &k, 4); uint16_t a = 50, b = 200, n = 4; be(o, &a, 2); be(o, &b, 2); be(o, &n, 2);
  const float wm[4][2] = {{4, 1.5f}, {1, 10}, {1, 20}, {2, 30.5f}};
  for (int i = 0; i < 4; ++i) { be(o, &wm[i][0], 4); be(o, &wm[i][1], 4); }
  tdigest<float> d = tdigest<float>::deserialize(o.data(), o.size());
  d.update(1);
  const double r05 = d.get_rank(0.5f), r1 = d.get_rank(1.0f);
  printf("get_rank(0.5) = %.6f, get_rank(1) = %.6f\n", r05, r1);
  if (r05 > r1) { printf("rank decreases\n"); return 1; }
  return 0;
}
