// C08 (repaired by a fix: commit): REQ merge of an odd-state compactor into a compactor that has not compacted yet.
// req_compactor::merge ORs the other compactor's state into its own; an odd state makes the next compaction use !coin_ instead of
// drawing a coin, and coin_ of a compactor that never compacted is the constructor's `false`: the first compaction after the
// merge always promotes the odd-indexed items. Averaged over ALL outcomes of the library's coin flips the rank is then biased.
// Exact enumeration through the DATASKETCHES_VERIF hook: B (k=6) gets 50 values, A (k=4) is empty, A.merge(B), A.update(105).
// g++ -std=c++11 -O1 -I/repo/common/include -I/repo/req/include repro/C08-req-merge-deterministic-coin.cpp
#define DATASKETCHES_VERIF
#include <req_sketch.hpp>
#include <cstdio>
#include <cmath>
#include <vector>
#include <map>
using namespace datasketches;
static std::vector<int> tape; static size_t pos, used;
static uint32_t bit() { uint32_t b = pos < tape.size() ? tape[pos] : 0; ++pos; if (pos > used) used = pos; return b; }
int main() {
  int bad = 0;
  for (int hra = 0; hra < 2; ++hra) {
    std::vector<float> vals; for (int i = 0; i < 25; ++i) { vals.push_back(1 + 2 * i); vals.push_back(99 - 2 * i); }
    random_utils::verif_bit_source() = &bit;
    std::map<int, double> si, se; size_t leaves = 0;
    std::vector<std::vector<int> > stack(1);
    while (!stack.empty()) {
      tape = stack.back(); stack.pop_back(); pos = 0; used = 0;
      req_sketch<float> a(4, hra == 1), b(6, hra == 1);
      for (size_t i = 0; i < vals.size(); ++i) b.update(vals[i]);
      a.merge(b); a.update(105);
      if (used > tape.size()) { const size_t extra = used - tape.size();
        for (size_t m = 0; m < ((size_t)1 << extra); ++m) { std::vector<int> t = tape; for (size_t e = 0; e < extra; ++e) t.push_back((m >> e) & 1); stack.push_back(t); }
        continue; }
      const double p = 1.0 / (double)((size_t)1 << tape.size()); ++leaves;
      for (int v = 0; v <= 106; ++v) { si[v] += p * a.get_rank((float)v, true) * a.get_n(); se[v] += p * a.get_rank((float)v, false) * a.get_n(); }
    }
    for (int v = 0; v <= 106; ++v) { int ti = 0, te = 0; for (size_t i = 0; i < vals.size(); ++i) { if (vals[i] <= v) ++ti; if (vals[i] < v) ++te; } if (105 <= v) ++ti; if (105 < v) ++te;
      if (std::fabs(si[v] - ti) > 1e-9 || std::fabs(se[v] - te) > 1e-9) { if (bad < 4) printf("%s v=%d: E[n*rank] inclusive %.4f (true %d), exclusive %.4f (true %d) over %zu coin outcomes\n", hra ? "HRA" : "LRA", v, si[v], ti, se[v], te, leaves); ++bad; } }
  }
  if (bad) { printf("FAIL: %d biased (value, criterion) pairs\n", bad); return 1; }
  printf("OK\n"); return 0;
}
