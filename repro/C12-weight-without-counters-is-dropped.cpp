// C12 reproducer: a frequent_items_sketch whose counters were all purged still carries weight (total_weight > 0,
// maximum error > 0) but reports is_empty() == true, because is_empty() is "no active counter". Everything that
// tests is_empty() then drops that weight:
//  (a) merge(other) returns early: the merged total weight is not the sum of the update weights, and the upper bound
//      of items that were offered to `other` no longer covers their true weight (ub < true);
//  (b) the same through merge(frequent_items_sketch&&);
//  (c) serialize writes the 8-byte "empty" image: the round trip restores total weight 0 and maximum error 0.
// Public API only; lg_max_map_size = 3 (8 slots, capacity 6): the 7th distinct item of weight 1 purges with median 1.
//
// clang++ -std=c++11 -I/repo/common/include -I/repo/fi/include -o /tmp/C12-repro /verif/repro/C12-weight-without-counters-is-dropped.cpp && /tmp/C12-repro
#include <frequent_items_sketch.hpp>
#include <cstdio>
using namespace datasketches;
typedef frequent_items_sketch<int> Sk;

static Sk purged() { Sk s(3); for (int i = 100; i < 107; ++i) s.update(i, 1); return s; }   // 7 items, weight 1 each

int main() {
  int bad = 0;
  {
    Sk b = purged();
    printf("operand: total_weight=%llu max_error=%llu active=%u is_empty=%d\n", (unsigned long long)b.get_total_weight(),
           (unsigned long long)b.get_maximum_error(), b.get_num_active_items(), (int)b.is_empty());
  }
  { // (a)
    Sk a(3); a.update(1, 3); a.update(100, 1);   // true weights now: item 1 -> 3, item 100 -> 1
    const Sk p = purged();
    a.merge(p);                                   // + item 100..106 -> 1 each: total must be 4 + 7 = 11, item 100 -> 2
    printf("(a) a.merge(purged): total_weight=%llu (exact sum 11), item 100: lb=%llu ub=%llu (true 2), item 103: ub=%llu (true 1)\n",
           (unsigned long long)a.get_total_weight(), (unsigned long long)a.get_lower_bound(100), (unsigned long long)a.get_upper_bound(100),
           (unsigned long long)a.get_upper_bound(103));
    if (a.get_total_weight() != 11) { printf("  VIOLATION: total weight is not the sum of all update weights\n"); bad = 1; }
    if (a.get_upper_bound(100) < 2 || a.get_upper_bound(103) < 1) { printf("  VIOLATION: upper bound below the true weight\n"); bad = 1; }
  }
  { // (b) rvalue overload
    Sk into(3); into.update(2, 5);
    into.merge(purged());
    printf("(b) {2:5}.merge(std::move(purged)): total_weight=%llu (exact sum 12), max_error=%llu, item 104 ub=%llu (true 1)\n",
           (unsigned long long)into.get_total_weight(), (unsigned long long)into.get_maximum_error(), (unsigned long long)into.get_upper_bound(104));
    if (into.get_total_weight() != 12 || into.get_upper_bound(104) < 1) { printf("  VIOLATION: weight of the merged-in sketch lost\n"); bad = 1; }
  }
  { // (c)
    Sk s = purged();
    auto bytes = s.serialize();
    Sk r = Sk::deserialize(bytes.data(), bytes.size());
    printf("(c) round trip of purged: %zu bytes, total_weight=%llu (was %llu), max_error=%llu (was %llu), item 100 ub=%llu (true 1)\n", bytes.size(),
           (unsigned long long)r.get_total_weight(), (unsigned long long)s.get_total_weight(), (unsigned long long)r.get_maximum_error(),
           (unsigned long long)s.get_maximum_error(), (unsigned long long)r.get_upper_bound(100));
    if (r.get_total_weight() != s.get_total_weight() || r.get_upper_bound(100) < 1) { printf("  VIOLATION: round trip lost total weight and offset\n"); bad = 1; }
  }
  return bad;
}
