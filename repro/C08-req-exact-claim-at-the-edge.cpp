// C08 (repaired by a fix: commit): REQ publishes lower bound == upper bound == r for a rank r that is not the true rank.
// The region declared exact was rank >= 1 - 3k/n (HRA) / rank <= 3k/n (LRA), edge included. The 3k items at the accurate end are
// never compacted, but the item just outside them can be estimated one weight unit off, which puts its estimate exactly ON the
// edge: the sketch then declares a wrong rank exact. Exhaustive over all coin outcomes of one small history (k = 4, HRA, every prefix of
// 160 values in "organ pipe" order) through the DATASKETCHES_VERIF hook.
// g++ -std=c++11 -O1 -I/repo/common/include -I/repo/req/include repro/C08-req-exact-claim-at-the-edge.cpp
#define DATASKETCHES_VERIF
#include <req_sketch.hpp>
#include <cstdio>
#include <cmath>
#include <vector>
using namespace datasketches;
static std::vector<int> tape; static size_t pos, used;
static uint32_t bit() { uint32_t b = pos < tape.size() ? tape[pos] : 0; ++pos; if (pos > used) used = pos; return b; }
int main() {
  const int n = 160; std::vector<float> vals;
  for (int i = 0; i < n; ++i) vals.push_back((float)(i < (n + 1) / 2 ? 2 * i : 2 * (n - 1 - i) + 1));
  random_utils::verif_bit_source() = &bit;
  size_t leaves = 0, claimed = 0, wrong = 0;
  std::vector<std::vector<int> > stack(1);
  while (!stack.empty() && leaves < 4096) {
    tape = stack.back(); stack.pop_back(); pos = 0; used = 0;
    req_sketch<float> s(4, true);
    for (int i = 0; i < n; ++i) s.update(vals[i]);
    if (used > tape.size()) { std::vector<int> t = tape; t.resize(used, 0);
      // depth-first over the not yet fixed draws: fix the next one both ways
      for (int b = 0; b < 2; ++b) { std::vector<int> u = tape; u.push_back(b); stack.push_back(u); }
      continue; }
    ++leaves;
    // every prefix of the stream under this coin outcome
    pos = 0; req_sketch<float> p(4, true); std::vector<float> seen;
    for (int i = 0; i < n; ++i) {
      p.update(vals[i]); seen.push_back(vals[i]);
      for (int v = 0; v <= 2 * n; ++v) for (int incl = 0; incl < 2; ++incl) {
        const double est = p.get_rank((float)v, incl == 1);
        if (p.get_rank_lower_bound(est, 3) != p.get_rank_upper_bound(est, 3)) continue;
        ++claimed;
        size_t cnt = 0; for (size_t j = 0; j < seen.size(); ++j) if (incl ? seen[j] <= v : seen[j] < v) ++cnt;
        const double truth = (double)cnt / (double)seen.size();
        if (std::fabs(est - truth) > 1e-12) { if (wrong < 3) printf("after %d updates: get_rank(%d, %s) = %.6f is published as exact, the true rank is %.6f\n", i + 1, v, incl ? "inclusive" : "exclusive", est, truth); ++wrong; }
      }
    }
  }
  printf("%zu coin outcomes, %zu ranks published as exact, %zu of them wrong\n", leaves, claimed, wrong);
  return wrong ? 1 : 0;
}
