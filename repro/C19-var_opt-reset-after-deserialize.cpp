// C09/C19 (repaired by a fix: commit): var_opt_sketch restored from a small warm-up image, reset(), then updates: writes past the
// arrays (run under -fsanitize=address).  clang++ -std=c++11 -g -fsanitize=address -fno-access-control -I/repo/common/include -I/repo/sampling/include <this file>
#include <var_opt_sketch.hpp>
#include <cstdio>
using namespace datasketches;
int main() {
  for (int k : {16, 33, 64, 100, 1000}) for (int n : {1, 2, 3, 5}) {
    var_opt_sketch<int> a(k);
    for (int i = 0; i < n; ++i) a.update(i, 1.0);
    auto bytes = a.serialize();
    var_opt_sketch<int> b = var_opt_sketch<int>::deserialize(bytes.data(), bytes.size());
    unsigned before = b.curr_items_alloc_;
    b.reset();
    printf("k=%d n=%d alloc after deserialize %u, after reset %u\n", k, n, before, b.curr_items_alloc_);
    for (int i = 0; i < (int)b.curr_items_alloc_; ++i) b.update(i, 1.0);
  }
  return 0;
}
