// C02 reproducer: theta_union built with p < 1 returns, while it has seen no (non-empty) input, an EMPTY compact
// sketch whose theta is p instead of 1.0. Every other empty theta sketch in the library reports theta 1.0
// (update_theta_sketch::get_theta64() forces it, serialization drops theta of an empty sketch), so the same
// result changes its theta by a serialize/deserialize round trip.
//
// g++ -std=c++11 -I/repo/common/include -I/repo/theta/include C02-union-empty-result-theta.cpp -o /tmp/c02-union && /tmp/c02-union
#include <theta_union.hpp>
#include <theta_sketch.hpp>
#include <iostream>
using namespace datasketches;

int main() {
  theta_union u = theta_union::builder().set_p(0.5f).build();
  compact_theta_sketch r0 = u.get_result();                       // nothing fed at all
  update_theta_sketch e = update_theta_sketch::builder().set_p(0.5f).build();
  u.update(e);                                                    // an empty input changes nothing
  compact_theta_sketch r = u.get_result();
  auto bytes = r.serialize();
  compact_theta_sketch back = compact_theta_sketch::deserialize(bytes.data(), bytes.size());
  std::cout << "empty update sketch (p=0.5): is_empty=" << e.is_empty() << " theta=" << e.get_theta() << "\n";
  std::cout << "union(p=0.5) result        : is_empty=" << r.is_empty() << " theta=" << r.get_theta() << "\n";
  std::cout << "same result deserialized   : is_empty=" << back.is_empty() << " theta=" << back.get_theta() << "\n";
  bool bad = r0.is_empty() && r0.get_theta64() != theta_constants::MAX_THETA;
  bad = bad || (r.is_empty() && r.get_theta64() != theta_constants::MAX_THETA) || r.get_theta64() != back.get_theta64();
  std::cout << (bad ? "DEFECT: empty union result has theta != 1.0" : "ok") << std::endl;
  return bad ? 1 : 0;
}
