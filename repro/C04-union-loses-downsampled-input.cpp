// C04 reproducer: hll_union drops its first input when that input has to be down-sampled.
//
//   g++ -std=c++11 -I/repo/common/include -I/repo/hll/include \
//       /verif/repro/C04-union-loses-downsampled-input.cpp -o /tmp/c04-repro && /tmp/c04-repro
//
// Public API only. Exit status 1 and "DEFECT" lines when the defect is present, 0 otherwise.
//
// Cause: hll_union_alloc::copy_or_downsample (hll/include/HllUnion-internal.hpp:211-217) builds the down-sampled gadget
// with Hll8Array::mergeHll, which writes the registers but defers the recomputation of cur_min / num_at_cur_min / kxq
// (rebuild flag). Until some estimate getter runs that rebuild, HllArray::isEmpty() (cur_min == 0 && num_at_cur_min == k,
// HllArray-internal.hpp:467-470) still answers "empty" for the freshly filled gadget, so
//   * hll_union::is_empty() is true although a non-empty sketch was merged,
//   * the next update(const&) takes the "gadget is empty" branch of union_impl (HllUnion-internal.hpp:234 or :261) and
//     replaces the gadget by the new input; update(&&) does the same at HllUnion-internal.hpp:54-57.
// Everything offered before is lost. The same happens when an HLL-mode gadget is down-sampled because a later input has a
// smaller lg_k (HllUnion-internal.hpp:252-255) and a third input follows.
#include <hll.hpp>
#include <cstdio>

using namespace datasketches;

static hll_sketch make(uint8_t lg_k, target_hll_type t, int from, int n) {
  hll_sketch s(lg_k, t);
  for (int i = 0; i < n; ++i) s.update(from + i);
  return s;
}

int main() {
  int bad = 0;
  { // the case of the property text: lg_max_k 10, first input lg_k 12 (HLL mode), second input lg_k 10
    const hll_sketch a = make(12, HLL_8, 0, 20000);          // ~20000 distinct
    const hll_sketch b = make(10, HLL_4, 1000000, 2000);     // ~2000 other distinct
    hll_union u(10);
    u.update(a);
    const bool empty_after_a = u.is_empty();
    u.update(b);
    const double est_ab = u.get_result(HLL_8).get_composite_estimate();
    hll_union v(10);                                          // other order: nothing needs down-sampling first
    v.update(b); v.update(a);
    const double est_ba = v.get_result(HLL_8).get_composite_estimate();
    std::printf("lg_max_k 10: A(lg_k 12, n=20000) then B(lg_k 10, n=2000): is_empty() after A = %d, estimate = %.0f; B then A: estimate = %.0f\n",
                (int)empty_after_a, est_ab, est_ba);
    if (empty_after_a) { std::printf("DEFECT: union reports empty after merging a non-empty sketch\n"); bad = 1; }
    if (est_ab < 0.5 * est_ba) { std::printf("DEFECT: the first input was dropped (result depends on the order of presentation)\n"); bad = 1; }
  }
  { // the smallest history found by the explorer: lg_max_k 4, A lg_k 5 in HLL mode, then a 3-item LIST-mode sketch of lg_k 4
    const hll_sketch a = make(5, HLL_6, 0, 40);
    const hll_sketch b = make(4, HLL_4, 500, 3);
    hll_union u(4);
    u.update(a);
    u.update(b);
    const hll_sketch r = u.get_result(HLL_4);
    std::printf("lg_max_k 4: A(lg_k 5, n=40, HLL mode) then B(lg_k 4, n=3, LIST mode): result estimate = %.1f (%s)\n",
                r.get_estimate(), r.to_string(true, false, false, false).find("LIST") != std::string::npos ? "still in LIST mode" : "HLL mode");
    if (r.get_estimate() < 10) { std::printf("DEFECT: result holds only the 3 items of B\n"); bad = 1; }
  }
  { // gadget down-sampled by the second input, lost at the third
    const hll_sketch a = make(6, HLL_8, 0, 200), b = make(5, HLL_8, 1000, 200), c = make(5, HLL_8, 2000, 30);
    hll_union u(6);
    u.update(a); u.update(b);                                 // gadget goes from lg_k 6 to lg_k 5 here
    const bool empty_after_ab = u.is_empty();
    u.update(c);
    const double est = u.get_result(HLL_8).get_composite_estimate();
    std::printf("lg_max_k 6: A(lg_k 6, n=200), B(lg_k 5, n=200), C(lg_k 5, n=30): is_empty() after A,B = %d, estimate = %.0f\n", (int)empty_after_ab, est);
    if (empty_after_ab || est < 200) { std::printf("DEFECT: A and B were dropped when C arrived\n"); bad = 1; }
  }
  return bad;
}
