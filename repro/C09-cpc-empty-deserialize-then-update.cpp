// g++ -std=c++11 -I/repo/common/include -I/repo/cpc/include C09-cpc-empty-deserialize-then-update.cpp && ./a.out
// before fix 3f..: restored est=inf (kxp restored as 0); after: equal to the original
#include <cpc_sketch.hpp>
#include <cstdio>
using namespace datasketches;
int main() {
  for (int lgk : {4, 11, 12}) {
    cpc_sketch s(lgk);
    auto bytes = s.serialize();
    cpc_sketch r = cpc_sketch::deserialize(bytes.data(), bytes.size());
    for (int i = 0; i < 3; ++i) { s.update(i); r.update(i); }
    printf("lg_k=%d original est=%g restored est=%g\n", lgk, s.get_estimate(), r.get_estimate());
  }
}
