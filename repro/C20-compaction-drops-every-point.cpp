// C20 (repaired by a fix: commit): with kernel values that are exactly 0 between different points (far-apart points under the
// Gaussian kernel, or any kernel with compact support) every discrepancy sum of a compaction is a tie, `bits[i] = delta < 0`
// was false for all i >= 1, and with the coin bits[0] = false the compaction dropped EVERY point: a sketch with n = 2 retained
// nothing, reported is_empty(), threw on get_estimate, was written as the empty image (n lost), and merging it into another
// sketch returned early without adding its n.
// g++ -std=c++11 -I/repo/common/include -I/repo/density/include repro/C20-compaction-drops-every-point.cpp
#include <density_sketch.hpp>
#include <cstdio>
using namespace datasketches;
int main() {
  int bad = 0;
  for (int trial = 0; trial < 64; ++trial) {
    density_sketch<double> a(2, 1), b(2, 1), c(2, 1);
    a.update(std::vector<double>(1, 0.0)); b.update(std::vector<double>(1, 1000.0)); c.update(std::vector<double>(1, 5.0));
    a.merge(b);                       // two points at k = 2: one compaction
    if (a.get_n() == 2 && (a.is_empty() || a.get_num_retained() == 0)) { if (!bad) printf("n = %llu, retained = %u, is_empty = %d\n", (unsigned long long)a.get_n(), a.get_num_retained(), (int)a.is_empty()); ++bad; }
    c.merge(a);
    if (c.get_n() != 3) { if (bad <= 1) printf("merge lost n: %llu instead of 3\n", (unsigned long long)c.get_n()); ++bad; }
  }
  if (bad) { printf("FAIL (%d)\n", bad); return 1; }
  printf("OK\n"); return 0;
}
