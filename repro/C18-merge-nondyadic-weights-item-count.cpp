// C18 / C19 reproducer: ebpps_sketch::merge() with weights that are not powers of two leaves the sample with an item count that does
// not follow C (two defects, fixed by 267deff and 2cf64af).
//  (1) k=3, weights 11,1,1 merged with a copy of itself: the items of the argument are re-inserted with probability
//      new_rho * avg_wt where avg_wt = W / C = 13 / 1.1818181818181817 = 11.000000000000002; the product is 1.0000000000000002,
//      replace_content() stores the item as a PARTIAL item with c > 1, and the merged sample has C = 2.36 but one full item. With
//      more items (weights 1,11,1,2,1,2,1,2,1) the next downsample reads past the end of the item array (ASan: heap-buffer-overflow
//      in ebpps_sample::subsample).
//  (2) k=3, weights 3,3,1,1,1 merged with a copy of itself: C = 3.0000000000000004 before the merge; inside the merge a one-ulp
//      fractional part is lost in c_ += other.c_, the sum is integral, the branch for 'fractions add up to one' promotes a partial
//      item although the integral part did not grow: C = 3, four stored items, get_result() returns 4 > k items.
// No draw matters for either: the states are reached for (almost) every seed.
//
// clang++ -std=c++11 -I/repo/common/include -I/repo/sampling/include -o /tmp/C18-nondyadic /verif/repro/C18-merge-nondyadic-weights-item-count.cpp && /tmp/C18-nondyadic
#include <ebpps_sketch.hpp>
#include <cstdio>
#include <cmath>
using namespace datasketches;

static int check(const char* what, const ebpps_sketch<int>& s) {
  size_t most = 0, least = 1000;
  for (int i = 0; i < 200; ++i) { const size_t r = s.get_result().size(); if (r > most) most = r; if (r < least) least = r; }
  const double c = s.get_c();
  printf("%s: k=%u n=%llu C=%.17g result sizes %zu..%zu\n", what, s.get_k(), (unsigned long long)s.get_n(), c, least, most);
  int bad = 0;
  if (most > s.get_k()) { printf("  VIOLATION: a result holds more than k items\n"); bad = 1; }
  if (c - std::floor(c) > 1e-9 && c - std::floor(c) < 1 - 1e-9 && (least < std::floor(c) || most > std::ceil(c))) { printf("  VIOLATION: result sizes are not floor(C) / ceil(C)\n"); bad = 1; }
  return bad;
}

int main() {
  int bad = 0;
  for (int seed = 1; seed <= 3; ++seed) {
    random_utils::override_seed(seed);
    { ebpps_sketch<int> a(3); const double w[] = {11, 1, 1}; for (int i = 0; i < 3; ++i) a.update(i, w[i]);
      ebpps_sketch<int> b(a); a.merge(b); bad |= check("k3 [11,1,1] merged with its copy    ", a); }
    { ebpps_sketch<int> a(3); const double w[] = {3, 3, 1, 1, 1}; for (int i = 0; i < 5; ++i) a.update(i, w[i]);
      ebpps_sketch<int> b(a); a.merge(b); bad |= check("k3 [3,3,1,1,1] merged with its copy", a); }
  }
  printf(bad ? "defect present\n" : "OK\n");
  return bad;
}
