// C18 reproducer: ebpps_sketch::merge() never stores the merged maximum item weight.
// internal_merge() computes new_wt_max = max(wt_max_, sk.wt_max_) and uses it for rho during the merge, but wt_max_
// itself keeps the old value. The next update() computes rho from the stale maximum, so the expected sample size C is
// no longer min(k, cumulative_weight / max_weight) and the heavy item is over-represented.
//
// clang++ -std=c++11 -I/repo/common/include -I/repo/sampling/include -o /tmp/C18-merge-stale-wt-max /verif/repro/C18-merge-stale-wt-max.cpp && /tmp/C18-merge-stale-wt-max
#include <ebpps_sketch.hpp>
#include <cstdio>
#include <cmath>
#include <algorithm>
using namespace datasketches;

int main() {
  int bad = 0;
  { // no swap: the target has the larger cumulative weight, the argument holds the heaviest item
    ebpps_sketch<int> a(3), b(3);
    for (int i = 0; i < 5; ++i) a.update(i, 1.0);      // W = 5, max weight 1
    b.update(100, 4.0);                                 // W = 4, max weight 4
    a.merge(b);                                         // W = 9, max 4 -> C = min(3, 9/4) = 2.25
    printf("after merge : n=%llu W=%g C=%.6f (expected %.6f)\n", (unsigned long long)a.get_n(), a.get_cumulative_weight(), a.get_c(), std::min(3.0, 9.0 / 4.0));
    a.update(5, 1.0);                                   // W = 10, max 4 -> C = min(3, 10/4) = 2.5
    const double want = std::min(3.0, 10.0 / 4.0);
    printf("after update: n=%llu W=%g C=%.6f (expected %.6f)\n", (unsigned long long)a.get_n(), a.get_cumulative_weight(), a.get_c(), want);
    if (std::fabs(a.get_c() - want) > 1e-9) { printf("  VIOLATION: C != min(k, W / max weight)\n"); bad = 1; }
  }
  { // swap: the argument has the larger cumulative weight, the target holds the heaviest item
    ebpps_sketch<int> a(3), b(3);
    a.update(0, 4.0);                                   // W = 4, max 4
    for (int i = 0; i < 5; ++i) b.update(100 + i, 1.0); // W = 5, max 1
    a.merge(b);
    a.update(1, 1.0);                                   // W = 10, max 4 -> C = 2.5
    const double want = std::min(3.0, 10.0 / 4.0);
    printf("swapped case: n=%llu W=%g C=%.6f (expected %.6f)\n", (unsigned long long)a.get_n(), a.get_cumulative_weight(), a.get_c(), want);
    if (std::fabs(a.get_c() - want) > 1e-9) { printf("  VIOLATION: C != min(k, W / max weight)\n"); bad = 1; }
  }
  return bad;
}
