// C17: a digest restored from an image in the reference (Java t-digest, big-endian) format whose first/last centroid is
// heavier than 1 answers rank > 1, quantile > max (or NaN), and loses its min/max when merged into another digest.
// Such extreme centroids are never produced by this library's own update/merge (explorer: 0 states), only by deserialize().
// Causes (tdigest/include/tdigest_impl.hpp): :109 left-tail rank not divided by the total weight; :169 right-tail quantile
// adds instead of subtracts (and divides 0/0 when the last centroid has weight 2); :47-55 merge(other) takes min/max from
// the extreme centroid means instead of other.min_/other.max_.
// Build: clang++ -std=c++11 -I/repo/common/include -I/repo/tdigest/include C17-reference-image-heavy-extreme-centroids.cpp -o /tmp/C17-i && /tmp/C17-i
#include <tdigest.hpp>
#include <cstdio>
#include <cstring>
#include <vector>
static void be(std::vector<unsigned char>& o, const void* p, size_t n) { const unsigned char* c = (const unsigned char*)p; for (size_t i = n; i > 0; --i) o.push_back(c[i - 1]); }
static void d(std::vector<unsigned char>& o, double v) { be(o, &v, 8); }
int main() {
  // values {0,1,2,5,6,7,8,9,10}: centroids (mean 1, weight 3) 5 6 7 (mean 9, weight 3), min 0, max 10, compression 10
  std::vector<unsigned char> img; img.push_back(0); img.push_back(0); img.push_back(0); img.push_back(1);
  d(img, 0); d(img, 10); d(img, 10);
  unsigned n = 5; be(img, &n, 4);
  const double c[5][2] = {{3, 1}, {1, 5}, {1, 6}, {1, 7}, {3, 9}};   // (weight, mean)
  for (int i = 0; i < 5; ++i) { d(img, c[i][0]); d(img, c[i][1]); }
  datasketches::tdigest<double> td = datasketches::tdigest<double>::deserialize(img.data(), img.size());
  int bad = 0;
  std::printf("total weight %llu min %g max %g\n", (unsigned long long)td.get_total_weight(), td.get_min_value(), td.get_max_value());
  double r = td.get_rank(0.5);
  std::printf("get_rank(0.5) = %g (get_rank(1) = %g)\n", r, td.get_rank(1)); if (r > 1 || r > td.get_rank(1)) ++bad;
  double q = td.get_quantile(0.8359375);
  std::printf("get_quantile(0.8359375) = %g, max = %g\n", q, td.get_max_value()); if (!(q <= td.get_max_value())) ++bad;
  datasketches::tdigest<double> empty(10);
  empty.merge(td);
  std::printf("after empty.merge(restored): min %g max %g (expected 0 and 10)\n", empty.get_min_value(), empty.get_max_value());
  if (empty.get_min_value() != 0 || empty.get_max_value() != 10) ++bad;
  std::printf(bad ? "DEFECT: %d of 3 observations wrong\n" : "ok\n", bad);
  return bad ? 1 : 0;
}
