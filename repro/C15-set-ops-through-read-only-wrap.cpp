// C15 reproducer 3: invert(), union_with() and intersect() are not refused on a read-only filter and write into
// the memory that was handed to wrap() as `const void*`.
//
// update(), query_and_update() and reset() throw std::logic_error on a read-only filter; the three set operations
// have no such test. (wrap() returns a const object, but `auto f = bloom_filter::wrap(..)` / copy construction
// gives a non-const read-only filter, exactly as bloom_filter_test.cpp does.) The bit array in the caller's memory
// is modified while the count stored next to it is not (update_num_bits_set skips read-only filters), so the image
// is left inconsistent as well.
//
// Cause: filters/include/bloom_filter_impl.hpp:844, :853, :862 (union_with, intersect, invert lack the
//        `if (is_read_only_) throw` that internal_update (:626), internal_query_and_update (:723) and reset (:524) have)
//
// Build: clang++ -std=c++11 -I/repo/common/include -I/repo/filters/include C15-set-ops-through-read-only-wrap.cpp -o r3 && ./r3
// Exit code 1 = defect reproduced.
#include <bloom_filter.hpp>
#include <cstdio>
#include <vector>
using namespace datasketches;

int main() {
  int bad = 0;
  bloom_filter src = bloom_filter::builder::create_by_size(64, 3, 123);
  src.query_and_update(static_cast<uint64_t>(1));
  const std::vector<uint8_t> image = src.serialize();          // a valid, consistent image: 3 bits set, count 3
  bloom_filter other = bloom_filter::builder::create_by_size(64, 3, 123);
  other.update(static_cast<uint64_t>(2));

  const char* names[3] = { "invert", "union_with", "intersect" };
  for (int op = 0; op < 3; ++op) {
    std::vector<uint8_t> mem(image);
    bloom_filter ro = bloom_filter::wrap(mem.data(), mem.size());   // read-only view (copy of the const temporary)
    bool threw = false;
    try { ro.update(static_cast<uint64_t>(7)); } catch (const std::logic_error&) { threw = true; }
    if (op == 0) std::printf("is_read_only() = %d, update() refused: %d\n", ro.is_read_only(), threw);
    threw = false;
    try {
      if (op == 0) ro.invert(); else if (op == 1) ro.union_with(other); else ro.intersect(other);
    } catch (const std::exception&) { threw = true; }
    const bool changed = mem != image;
    std::printf("%s on the read-only view: refused = %d (expected 1), caller memory changed = %d (expected 0)\n", names[op], threw, changed);
    if (!threw || changed) bad = 1;
  }
  std::printf(bad ? "DEFECT REPRODUCED\n" : "ok\n");
  return bad;
}
