// density_sketch::serialize(header_size_bytes) with header_size_bytes > 0 throws for every NON-EMPTY sketch.
// Found while building the C20 harness (it is a C09 matter: "serialize(h) has length h + |bytes0|").
//
// Cause: density/include/density_sketch_impl.hpp:228-229
//     uint8_t* ptr = bytes.data() + header_size_bytes;
//     const uint8_t* end_ptr = ptr + size;              // size already includes header_size_bytes
// so end_ptr is header_size_bytes past the real end and the final consistency test (line 259)
//     if (ptr != end_ptr) throw std::runtime_error("Actual output size does not equal expected output size");
// fires whenever header_size_bytes != 0 (an empty sketch returns before the test).
//
// g++ -std=c++11 -I/repo/common/include -I/repo/density/include C09-density-serialize-header-throws.cpp -o repro && ./repro
#include <density_sketch.hpp>
#include <iostream>
#include <cstring>

int main() {
  datasketches::density_sketch<double> sk(4, 1);
  for (int i = 0; i < 3; ++i) sk.update(std::vector<double>(1, (double)i));
  auto plain = sk.serialize();
  std::cout << "serialize(0): " << plain.size() << " bytes\n";
  try {
    auto with_header = sk.serialize(8);
    const bool ok = with_header.size() == plain.size() + 8 && memcmp(with_header.data() + 8, plain.data(), plain.size()) == 0;
    std::cout << "serialize(8): " << with_header.size() << " bytes, tail " << (ok ? "equals" : "DIFFERS from") << " serialize(0)\n";
    return ok ? 0 : 1;
  } catch (const std::exception& e) {
    std::cout << "serialize(8) threw: " << e.what() << "   <-- defect\n";
    return 1;
  }
}
