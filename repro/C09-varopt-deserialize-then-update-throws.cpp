#include <var_opt_sketch.hpp>
#include <cstdio>
using namespace datasketches;
int main() {
  for (int k : {1,2,3,4,5,8,16,100}) for (int n : {k+1, 2*k+1, 10*k}) {
    var_opt_sketch<int> s(k);
    for (int i = 0; i < n; ++i) s.update(i, 1.0);
    auto b = s.serialize();
    var_opt_sketch<int> r = var_opt_sketch<int>::deserialize(b.data(), b.size());
    const char* res = "ok";
    try { r.update(100, 1.0); } catch (std::exception& e) { res = e.what(); }
    printf("k=%d n=%d: %s\n", k, n, res);
  }
}
