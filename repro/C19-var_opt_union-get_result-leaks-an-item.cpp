// C19 (repaired by a fix: commit): var_opt_union(5).update(sampling sketch k=2) twice, then get_result(): one item is constructed and
// never destroyed (variants with update2 and result2).  g++ -std=c++11 -I/repo/common/include -I/repo/sampling/include <this file>
#include <var_opt_union.hpp>
#include <cstdio>
using namespace datasketches;
static long live = 0;
struct It { int v; It(int x): v(x) { ++live; } It(const It& o): v(o.v) { ++live; } It(It&& o) noexcept: v(o.v) { ++live; } It& operator=(const It& o) { v = o.v; return *this; } It& operator=(It&& o) noexcept { v = o.v; return *this; } ~It() { --live; } };
typedef var_opt_sketch<It> VS;
static VS src(int n, int k) { VS v((uint32_t)k, resize_factor::X8); for (int i = 0; i < n; ++i) v.update(It(i), 1.0 + (i % 3)); return v; }
static long run(int variant) {
  live = 0;
  {
    var_opt_union<It> u0(5);
    { VS v = src(15, 2); u0.update(std::move(v)); }
    if (variant & 1) { VS r = u0.get_result(); }
    if (variant & 2) { VS v = src(17, 2); u0.update(std::move(v)); }
    if (variant & 4) { VS r = u0.get_result(); }
    if (variant & 8) { var_opt_union<It> u1(u0); }
  }
  return live;
}
int main() { int bad = 0; for (int v = 0; v < 16; ++v) { long l = run(v); printf("variant %2d (result=%d update2=%d result2=%d copy=%d): %ld alive\n", v, v & 1, (v >> 1) & 1, (v >> 2) & 1, (v >> 3) & 1, l); if (l) ++bad; } return bad ? 1 : 0; }
