// C15 reproducer 2: memory updated through a writable filter keeps a stale bit count, so every later view of
// that memory (wrap, writable_wrap, deserialize) says "empty" and answers false for every inserted item.
//
// A filter created by initialize_by_size()/writable_wrap() mirrors its header in the caller's memory; the cached
// number of set bits lives at byte 24. update() sets bits in the memory but only marks the *object* dirty; the
// count in memory stays what it was (0 for a new filter). get_bits_used() recounts but does not write the result
// back either. A fresh wrap()/deserialize() of the same memory reads "0 bits set, not dirty", is_empty() is true,
// and query() short-circuits to false.
//
// Cause: filters/include/bloom_filter_impl.hpp:634 (internal_update: `is_dirty_ = true;` never reaches memory_ + 24)
//        and :481-482 (get_bits_used assigns num_bits_set_ directly instead of going through update_num_bits_set, :532-538)
//
// Build: clang++ -std=c++11 -I/repo/common/include -I/repo/filters/include C15-stale-count-in-wrapped-memory.cpp -o r2 && ./r2
// Exit code 1 = defect reproduced.
#include <bloom_filter.hpp>
#include <cstdio>
#include <vector>
using namespace datasketches;

int main() {
  int bad = 0;
  const size_t bytes = bloom_filter::get_serialized_size_bytes(1000);
  std::vector<uint64_t> mem(bytes / 8);
  bloom_filter w = bloom_filter::builder::initialize_by_size(mem.data(), bytes, 1000, 3, 123);
  for (uint64_t i = 0; i < 10; ++i) w.update(i);
  std::printf("writable filter: query(5) = %d\n", w.query(static_cast<uint64_t>(5)));

  const bloom_filter r = bloom_filter::wrap(mem.data(), bytes);
  bloom_filter d = bloom_filter::deserialize(mem.data(), bytes);
  bloom_filter w2 = bloom_filter::writable_wrap(mem.data(), bytes);
  std::printf("wrap(mem):          is_empty = %d, query(5) = %d (expected 0, 1)\n", r.is_empty(), r.query(static_cast<uint64_t>(5)));
  std::printf("deserialize(mem):   is_empty = %d, query(5) = %d (expected 0, 1)\n", d.is_empty(), d.query(static_cast<uint64_t>(5)));
  std::printf("writable_wrap(mem): is_empty = %d, query(5) = %d (expected 0, 1)\n", w2.is_empty(), w2.query(static_cast<uint64_t>(5)));
  if (!r.query(static_cast<uint64_t>(5)) || !d.query(static_cast<uint64_t>(5)) || !w2.query(static_cast<uint64_t>(5))) bad = 1;

  std::printf("w.get_bits_used() = %llu\n", static_cast<unsigned long long>(w.get_bits_used()));
  const bloom_filter r2 = bloom_filter::wrap(mem.data(), bytes);
  std::printf("after get_bits_used, wrap(mem): is_empty = %d, query(5) = %d (expected 0, 1)\n", r2.is_empty(), r2.query(static_cast<uint64_t>(5)));
  if (!r2.query(static_cast<uint64_t>(5))) bad = 1;
  std::printf(bad ? "DEFECT REPRODUCED\n" : "ok\n");
  return bad;
}
