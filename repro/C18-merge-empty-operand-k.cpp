// C18 reproducer: merging with an EMPTY sketch of smaller k does not take the smaller k.
// (a) merge(empty sketch with smaller k) returns early: k is unchanged.
// (b) empty sketch with smaller k .merge(non-empty sketch): the two are swapped, k_ becomes the minimum, but the loop that
//     re-inserts the (empty) other side never runs, so the sample keeps C = 3 items although k is now 1.
//
// clang++ -std=c++11 -I/repo/common/include -I/repo/sampling/include -o /tmp/C18-merge-empty-operand-k /verif/repro/C18-merge-empty-operand-k.cpp && /tmp/C18-merge-empty-operand-k
#include <ebpps_sketch.hpp>
#include <cstdio>
using namespace datasketches;

int main() {
  int bad = 0;
  {
    ebpps_sketch<int> a(2), e(1);
    a.update(0, 1.0);
    a.merge(e);
    printf("(a) k=2 sketch merged with an empty k=1 sketch: k=%u (expected 1)\n", a.get_k());
    if (a.get_k() != 1) { printf("  VIOLATION: merge did not take the smaller k\n"); bad = 1; }
  }
  {
    ebpps_sketch<int> e(1), b(3);
    for (int i = 0; i < 3; ++i) b.update(i, 1.0);
    e.merge(b);
    const size_t sz = e.get_result().size();
    printf("(b) empty k=1 sketch merged with a k=3 sketch of 3 items: k=%u C=%g result size=%zu (expected C <= k = 1)\n", e.get_k(), e.get_c(), sz);
    if (e.get_c() > e.get_k() + 1e-9 || sz > e.get_k()) { printf("  VIOLATION: C and the sample exceed k\n"); bad = 1; }
  }
  return bad;
}
