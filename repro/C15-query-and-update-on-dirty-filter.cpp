// C15 reproducer 1: query_and_update() on a filter that was modified by update() loses the whole filter.
//
// update() only marks the cached bit count dirty (num_bits_set_ stays as it was). query_and_update() then adds
// the number of newly set bits to that stale value and marks the count CLEAN. After update(x); query_and_update(x)
// the count is 0 and clean, so is_empty() is true and query() answers false for every item ever inserted:
// a false negative on a plain owned filter, public API only. With other items the count is merely wrong
// (get_bits_used() reports 1 instead of 4 below), and the wrong count is serialized.
//
// Cause: filters/include/bloom_filter_impl.hpp:731 (internal_query_and_update calls
//        update_num_bits_set(num_bits_set_ + ...) without looking at is_dirty_; update_num_bits_set clears is_dirty_, :534)
//
// Build: clang++ -std=c++11 -I/repo/common/include -I/repo/filters/include C15-query-and-update-on-dirty-filter.cpp -o r1 && ./r1
// Exit code 1 = defect reproduced.
#include <bloom_filter.hpp>
#include <cstdio>
using namespace datasketches;

int main() {
  int bad = 0;
  {
    bloom_filter f = bloom_filter::builder::create_by_size(64, 3, 123);
    f.update(static_cast<uint64_t>(1));
    const bool was_present = f.query_and_update(static_cast<uint64_t>(1));   // true, correct
    const bool present = f.query(static_cast<uint64_t>(1));
    std::printf("update(1); query_and_update(1) -> %d; query(1) = %d (expected 1), is_empty() = %d (expected 0), bits_used = %llu (expected 3)\n",
                was_present, present, f.is_empty(), static_cast<unsigned long long>(f.get_bits_used()));
    if (!present || f.is_empty()) bad = 1;
  }
  {
    bloom_filter f = bloom_filter::builder::create_by_size(1000, 3, 123);
    f.update(std::string("a"));
    f.query_and_update(std::string("b"));
    const unsigned long long used = f.get_bits_used();
    std::printf("update(a); query_and_update(b): bits_used = %llu (expected 6)\n", used);
    if (used != 6) bad = 1;
  }
  std::printf(bad ? "DEFECT REPRODUCED\n" : "ok\n");
  return bad;
}
